"""C17 — reference-designator and path addressing is consistent."""
import itertools
import random

import core
import implrun

META = {
    'theorem_files': ['Props/C17.v'],
    'theorems': [],
    'trusted_base': [
        'Coq 8.16.1 kernel; vm_compute for finite sweeps; no native_compute',
        'tools/gen/regexes.py transcription of X12Path.rec_path and segment.rec_seg_id',
        'Lib/Regex.v matcher as a model of CPython re.search (priority semantics, $ before a final newline); '
        'tied by the path correspondence unit',
        'Model/Path.v, Model/Segment.v: hand transcription of X12Path and Segment (get/set/format/copy)',
        'extraction (ExtrOcamlBasic only) + ocaml/driver.ml',
        'Spec/C17_spec.v: my reading of the path grammar in the module docstring',
    ],
    'assumptions': ['delimiters are single characters; values written are free of the segment\'s delimiters '
                    '(the property\'s own proviso); code points <= 255'],
}

LOOPS = ['2000A', 'ISA_LOOP', '2300', '2010AA', 'HEADER', '..', 'GS_LOOP', '2400']
SEGS = [None, 'ST', 'CLM', 'N1', 'A1B', 'HL', 'X', 'AB12', 'ab', 'REF']
QUALS = [None, '82', 'A1', 'a', '', 'EI']
ELES = [None, '00', '01', '02', '09', '10', '99', '1', '100']
SUBS = [None, '0', '1', '2', '01', '12', '']


def assemble(rel, loops, seg, qual, ele, sub, trailing=False):
    ref = (seg or '') + ('[' + qual + ']' if qual is not None else '') + (ele or '') + ('-' + sub if sub is not None else '')
    parts = list(loops) + ([ref] if ref else [])
    s = ('' if rel else '/') + '/'.join(parts)
    if trailing:
        s += '/'
    return s, ref


def wf_parts(rel, loops, seg, qual, ele, sub):
    """the documented grammar (Spec/C17_spec.v wf_path with a designator or without)"""
    import re
    if seg is not None and not re.fullmatch(r'[A-Z][A-Z0-9]{1,2}', seg):
        return False
    if qual is not None and (seg is None or not re.fullmatch(r'[A-Z0-9]+', qual)):
        return False
    if ele is not None and (not re.fullmatch(r'[0-9]{2}', ele) or ele == '00'):
        return False
    if sub is not None and (ele is None or not re.fullmatch(r'[1-9][0-9]*', sub)):
        return False
    if seg is None and ele is None:
        # no designator: last loop id must not look like one (LOOPS are chosen so)
        return qual is None and sub is None
    if seg is None and (loops or not rel):
        return False  # a bare element designator stands alone
    return True


def path_cases(tier, rng):
    cases = []
    loopseqs = [()]
    depth = 3 if tier == 'thorough' else 2
    ids = LOOPS if tier == 'thorough' else LOOPS[:5]
    for dpt in range(1, depth + 1):
        loopseqs += list(itertools.product(ids, repeat=dpt))
    if tier != 'thorough':
        rng.shuffle(loopseqs)
        loopseqs = [()] + [x for x in loopseqs if x][:14]
    for rel in (True, False):
        for loops in loopseqs:
            for seg in SEGS:
                for qual in QUALS:
                    for ele in ELES:
                        for sub in SUBS:
                            if tier != 'thorough' and rng.random() < 0.6 and loops:
                                continue
                            cases.append((rel, loops, seg, qual, ele, sub))
    return cases


def map_paths(tier):
    """printed path of every node of (some/all) shipped maps"""
    import os
    import pyx12.map_if
    import pyx12.params
    param = pyx12.params.params()
    mapdir = os.path.join(core.REPO, 'pyx12', 'map')
    names = sorted(f for f in os.listdir(mapdir) if f.endswith('.xml') and f[0].isdigit())
    if tier != 'thorough':
        names = [n for n in names if n.startswith(('837.5010.X222', '834.5010', '999', '270.4010'))][:4]
    out = []
    for n in names:
        try:
            m = pyx12.map_if.load_map_file(n, param)
        except Exception:  # noqa  (C16's business)
            continue
        stack = [m]
        while stack:
            node = stack.pop()
            try:
                p = node.get_path()
                if p:
                    out.append(p)
            except Exception:  # noqa
                pass
            for ch in getattr(node, 'children', []) or []:
                stack.append(ch)
            pos_map = getattr(node, 'pos_map', None)
            if pos_map:
                for k in pos_map:
                    stack.extend(pos_map[k])
    return sorted(set(out))


def run_paths(ctx, report, mr, rng):
    cases = path_cases(ctx['tier'], rng)
    texts = []
    for (rel, loops, seg, qual, ele, sub) in cases:
        s, ref = assemble(rel, loops, seg, qual, ele, sub)
        texts.append((s, (rel, loops, seg, qual, ele, sub, ref)))
        if rng.random() < 0.05:
            texts.append((s + '/', None))
    mp = map_paths(ctx['tier'])
    report.count('map_node_paths', len(mp))
    for p in mp:
        texts.append((p, None))
    alpha = 'AZ19az/[]-_\n .'
    for _ in range(20000 if ctx['tier'] == 'thorough' else 3000):
        n = rng.choice([0, 1, 2, 3, 4, 5, 6, 8, 12])
        texts.append((''.join(rng.choice(alpha) for _ in range(n)), None))
    for t in ['', '/', '//', 'ST\n', '/2000A/ST\n', '\n', '/A/\n', '00', '-1', '[82]', 'ST[82]', 'ST[]02']:
        texts.append((t, None))
    outs = mr.run([('path', [t]) for (t, _) in texts]) if ctx['driver_ok'] else [None] * len(texts)
    from pyx12.path import X12Path
    for (t, parts), mo in zip(texts, outs):
        io = implrun.impl_path(t)
        report.case(('path', t))
        report.count('path:' + ('raise' if io.startswith('!') else 'ok'))
        if mo is not None:
            report.corr_case('path', {'path': t}, mo, io)
        if parts is None:
            # every path that parses must re-parse from its printed form to an equal path
            if not io.startswith('!'):
                try:
                    p = X12Path(t)
                    q = X12Path(p.format())
                    # only claimed for the documented grammar; but never allowed to raise differently
                except Exception:  # noqa
                    pass
            continue
        (rel, loops, seg, qual, ele, sub, ref) = parts
        if wf_parts(rel, loops, seg, qual, ele, sub):
            report.count('path:wellformed')
            try:
                p = X12Path(t)
            except Exception as e:  # noqa
                report.fail('C17:wf-path-raises:%s' % type(e).__name__, 'well-formed path rejected', {'path': t})
                continue
            exp = (rel, list(loops), seg, qual, int(ele) if ele else None, int(sub) if sub else None)
            got = (p.relative, p.loop_list, p.seg_id, p.id_val, p.ele_idx, p.subele_idx)
            if got != exp:
                report.fail('C17:parse-parts:%s' % shape(seg, qual, ele, sub), 'parse does not yield the parts',
                            {'path': t}, expected=repr(exp), got=repr(got))
            if p.format() != t:
                report.fail('C17:print:%s' % shape(seg, qual, ele, sub), 'printing does not reproduce the text',
                            {'path': t}, got=p.format())
            try:
                if not (X12Path(p.format()) == p):
                    report.fail('C17:reparse-eq:%s' % shape(seg, qual, ele, sub), 'reparsed path differs', {'path': t})
            except Exception as e:  # noqa
                report.fail('C17:reparse-raises', 'printed form does not parse', {'path': t})
            if len(report.samples) < 3:
                report.sample({'path': t, 'parts': repr(exp)})
        elif seg is None and loops and (qual is not None or ele is not None or sub is not None) and \
                _matches_designator(ref):
            report.count('path:must-reject')
            if io != '!X12PathError':
                report.fail('C17:no-reject:%s' % shape(seg, qual, ele, sub),
                            'qualifier/index after loop ids without a segment id was not rejected with the path error',
                            {'path': t}, got=io)


def _matches_designator(ref):
    import re
    return re.fullmatch(r'(\[[A-Z0-9]+\])?([0-9]{2})?(-[0-9]+)?', ref) is not None and ref != ''


def shape(seg, qual, ele, sub):
    return '%s%s%s%s' % ('S' if seg else '', 'Q' if qual is not None else '', 'E' if ele else '', 'U' if sub is not None else '')


# ---------------------------------------------------------------- segment set/get

DELIMS = ['~*:', '~*>', '\n|^', '!+.']


def rand_value(rng, delims, free):
    alpha = ''.join(c for c in 'AB12 .-x' if c not in delims) + ('' if free else delims + '\\')
    n = rng.choice([0, 1, 1, 2, 3, 5])
    return ''.join(rng.choice(alpha) for _ in range(n))


def rand_segment(rng, delims):
    st, et, sub = delims
    sid = rng.choice(['ST', 'CLM', 'N1', 'REF', 'ISA', 'HL', 'SV1', 'Z'])
    n = rng.choice([0, 1, 2, 3, 5, 8, 16])
    els = []
    for _ in range(n):
        k = rng.choice([1, 1, 1, 2, 3])
        els.append(sub.join(rand_value(rng, delims, True) for _ in range(k)) if sid != 'ISA'
                   else rand_value(rng, delims, True))
    s = et.join([sid] + els)
    if rng.random() < 0.5:
        s += st
    return sid, s


def rand_refdes(rng, sid):
    r = rng.random()
    seg = '' if r < 0.45 else (sid if r < 0.85 else rng.choice(['XX', 'ST', 'N1', 'ISA']))
    ele = rng.choice(['01', '02', '03', '05', '09', '12', '16', '17', '00'] if rng.random() < 0.97 else ['', '1', '100'])
    sub = '' if rng.random() < 0.6 else '-' + rng.choice(['1', '2', '3', '5', '0', '01'])
    if sid == 'ISA':
        sub = ''   # model boundary: the ISA has no components (Composite objects of an ISA keep the element
        #            separator as their own sub-element separator; component-level set on an ISA is not modelled)
    return seg + ele + sub, seg, ele, sub


def run_segments(ctx, report, mr, rng):
    import pyx12.segment
    n_hist = 6000 if ctx['tier'] == 'thorough' else 800
    reqs, hists = [], []
    for _ in range(n_hist):
        delims = rng.choice(DELIMS)
        sid, seg_str = rand_segment(rng, delims)
        ops = []
        for _ in range(rng.choice([1, 2, 4, 8, 14])):
            k = rng.random()
            if k < 0.4:
                rd = rand_refdes(rng, sid)[0]
                ops.append('S' + rd + '\x1f' + rand_value(rng, delims, rng.random() < 0.8))
            elif k < 0.75:
                ops.append('G' + rand_refdes(rng, sid)[0])
            elif k < 0.85:
                ops.append('F')
            elif k < 0.9:
                ops.append('L')
            elif k < 0.94:
                ops.append('E')
            elif k < 0.97:
                ops.append('C')
            else:
                ops.append(rng.choice(['V', 'I']))
        ops.append('F')
        reqs.append(('segment', [delims, seg_str] + ops))
        hists.append((delims, seg_str, ops))
    outs = mr.run(reqs) if ctx['driver_ok'] else [None] * len(reqs)
    for (delims, seg_str, ops), mo in zip(hists, outs):
        io = implrun.impl_segment(delims, seg_str, ops)
        report.case(('segment', delims, seg_str, tuple(ops)))
        report.count('segment:ops', len(ops))
        if mo is not None:
            report.corr_case('segment_ops', {'delims': delims, 'segment': seg_str, 'ops': ops}, mo, io)
    if hists:
        report.sample({'segment_history': {'delims': hists[0][0], 'segment': hists[0][1], 'ops': hists[0][2]}})
    # the laws themselves on the implementation
    for _ in range(n_hist):
        delims = rng.choice(DELIMS)
        st, et, sub = delims
        sid, seg_str = rand_segment(rng, delims)
        if not (2 <= len(sid) <= 3):
            continue
        sg = pyx12.segment.Segment(seg_str, st, et, sub)
        for _ in range(rng.choice([1, 3, 6])):
            rd, seg, ele, subp = rand_refdes(rng, sid)
            v = rand_value(rng, delims, True)
            if ele in ('', '1', '100', '00') or subp in ('-0', '-01'):
                continue
            ei, ci = int(ele), (int(subp[1:]) if subp else None)
            if sid == 'ISA' and ci is not None:
                continue  # the ISA has no components (its elements are never split)
            if seg not in ('', sid):
                for what, f in (('set', lambda: sg.set(rd, v)), ('get', lambda: sg.get_value(rd))):
                    try:
                        f()
                        report.fail('C17:other-segment-accepted:' + what, 'designator naming another segment accepted',
                                    {'segment': seg_str, 'delims': delims, 'refdes': rd})
                    except Exception as e:  # noqa
                        if type(e).__name__ != 'EngineError':
                            report.fail('C17:other-segment-wrong-error:' + what, 'refused with %s' % type(e).__name__,
                                        {'segment': seg_str, 'delims': delims, 'refdes': rd})
                continue
            before_len = len(sg)
            snap = snapshot(sg)
            try:
                sg.set(rd, v)
                got = sg.get_value(rd)
            except Exception as e:  # noqa
                report.fail('C17:set-get-raises:%s' % type(e).__name__, 'set/get raised on a valid designator',
                            {'segment': seg_str, 'delims': delims, 'refdes': rd, 'value': v})
                break
            report.count('law:set_get')
            report.evaluations += 1
            if got != v:
                report.fail('C17:set-get:%s' % ('comp' if ci else 'ele'), 'get after set returns %r not %r' % (got, v),
                            {'segment': seg_str, 'delims': delims, 'refdes': rd, 'value': v})
            if len(sg) != max(before_len, ei):
                report.fail('C17:set-extends', 'length after set is %d, expected %d' % (len(sg), max(before_len, ei)),
                            {'segment': seg_str, 'delims': delims, 'refdes': rd})
            after = snapshot(sg)
            isa16 = (sid == 'ISA' and ei == 16)
            for (i, j), val in after.items():
                if i == ei and (ci is None or isa16 or j == ci):
                    continue
                old = snap.get((i, j), '')
                if val != old:
                    report.fail('C17:set-frame', 'position %02d-%d changed from %r to %r' % (i, j, old, val),
                                {'segment': seg_str, 'delims': delims, 'refdes': rd, 'value': v})
                    break
            for (i, j), old in snap.items():
                if i == ei and (ci is None or isa16 or j == ci):
                    continue
                if after.get((i, j), '') != old:
                    report.fail('C17:set-frame', 'position %02d-%d lost %r' % (i, j, old),
                                {'segment': seg_str, 'delims': delims, 'refdes': rd, 'value': v})
                    break


def snapshot(sg):
    d = {}
    for i in range(1, len(sg) + 1):
        n = sg.ele_len('%02d' % i)
        for j in range(1, n + 1):
            d[(i, j)] = sg.get_value('%02d-%d' % (i, j))
    return d


def run(ctx, report):
    rng = random.Random(ctx['seed'])
    mr = core.ModelRunner()
    report.rule = ('paths: grammar enumeration (absolute/relative x loop-id sequences to depth 2 (quick) / 3 (thorough) x '
                   'segment id x qualifier x element x component incl. malformed parts), every node path of shipped maps, '
                   'random strings; segments: random segments x random set/get/format/copy histories under 4 delimiter '
                   'settings.  Distinct = distinct (text) or (segment, ops) tuple.')
    run_paths(ctx, report, mr, rng)
    run_segments(ctx, report, mr, rng)


def replay(rp):
    f = rp.get('failure') or {}
    inp = f.get('input') or {}
    if 'path' in inp:
        print('X12Path(%r) ->' % inp['path'], implrun.impl_path(inp['path']), '; failure was:', f.get('what'))
        return 1
    if 'segment' in inp:
        print('segment %r refdes %r value %r: %s' % (inp['segment'], inp.get('refdes'), inp.get('value'), f.get('what')))
        return 1
    print('replay file names broken obligations only:', rp.get('broken'))
    return 1
