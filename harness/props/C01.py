"""C01 — tokenisation is lossless and independent of read chunking and source kind."""
import io
import os
import random
import tempfile

import core
import docgen
import implrun

META = {
    'theorem_files': ['Props/C01.v'],
    'theorems': ['C01_chunk_independent', 'C01_any_buffer_size', 'C01_bad_header_refused', 'C01_segment_construction', 'C01_format_parse_canon', 'C01_format_parse_exact', 'C01_format_parse_exact_interior', 'C01_parsed_has_shape', 'C01_format_parse_idempotent', 'C01_reread', 'C01_path_stream_agree', 'C01_blank_line_dropped'],
    'trusted_base': [
        'Coq 8.16.1 kernel; no native_compute',
        'Model/Raw.v, Model/Reader.v (reader_line), Model/Segment.v: hand transcription of RawX12File, '
        'X12Reader.__iter__, Segment.__init__/format',
        'tools/gen/consts.py: ISA_LEN, DEFAULT_BUFSIZE, header offsets, accepted versions, open() mode/newline',
        'the read-schedule abstraction of a text stream (read(n) returns 1..n characters, "" only at end of input)',
        'extraction (ExtrOcamlBasic only) + ocaml/driver.ml',
        'Spec/C01_spec.v: my reading of the property',
    ],
    'assumptions': ['code points <= 255; open-by-path is modelled for ASCII files (the encoding the code asks for); '
                    'file system and io buffering are exercised only by the differential runs'],
}

B = 8 * 1024


def body_with_boundaries(rng, d, k_targets, offsets):
    """segments sized so that some terminator lands at k*B + off for each requested (k, off);
    position counted from the start of the text (header = 106 chars)"""
    segs = []
    pos = 106
    for k in k_targets:
        for off in offsets:
            target = k * B + off        # index of the terminator character
            if target <= pos + 4:
                continue
            # fill with a few ordinary segments then one that ends exactly at target
            while target - pos > 200 and rng.random() < 0.7:
                s = docgen.seg(d, 'REF', '87', 'X' * rng.randint(0, 60))
                segs.append(s)
                pos += len(s) + 1
            need = target - pos          # length of the segment text before its terminator
            if need < 4:
                continue
            s = 'NTE' + d[1] + 'A' * (need - 4)
            segs.append(s)
            pos += len(s) + 1
    return segs


def gen_texts(ctx, rng):
    """(kind, text)"""
    out = []
    thorough = ctx['tier'] == 'thorough'
    dsets = docgen.DELIM_SETS if thorough else docgen.DELIM_SETS[:5]
    # 1. ordinary documents x delimiters x line conventions, with blanks / empties / trailing separators
    for d in dsets:
        for conv in docgen.LINE_CONVS:
            if d[0] in '\n\r' and conv:
                continue
            for _ in range(3 if thorough else 1):
                icvn = rng.choice(['00401', '00501'])
                segs = [docgen.isa('%09d' % rng.randint(1, 999999), d, icvn)]
                for _ in range(rng.randint(0, 12)):
                    r = rng.random()
                    if r < 0.1:
                        segs.append('')                      # empty segment (~~)
                    elif r < 0.2:
                        # leading blanks; the last value may itself end in white space, which must survive
                        last = rng.choice(['A', 'PADDED   ', 'A ', 'A\t', 'A \x0b', '  B  '])
                        if any(ch in d for ch in last):
                            last = 'A'
                        segs.append(' ' * rng.randint(1, 3) + docgen.seg(d, 'REF', '87', last))
                    elif r < 0.25:
                        segs.append(docgen.seg(d, 'REF', 'ZZ', rng.choice(['TRAIL  ', ' LEAD', ' BOTH ']) if ' ' not in d else 'X'))
                    elif r < 0.32:
                        segs.append(docgen.seg(d, 'N1', 'PR', '') + d[1] * rng.randint(0, 2))
                    elif r < 0.4:
                        segs.append(docgen.seg(d, 'SVC', ['HC', '99213', ''], '1', ['', '']))
                    elif r < 0.45:
                        segs.append('SE')                    # id only
                    elif r < 0.5:
                        segs.append(' ')                     # blanks only
                    else:
                        segs.append(docgen.seg(d, rng.choice(['ST', 'NM1', 'CLM', 'HL']), 'A B', ['x', 'y', 'z'], ''))
                text = docgen.encode(segs, d, conv)
                if rng.random() < 0.3:
                    text += 'TRAILING UNTERMINATED'
                out.append(('plain', text))
    # 1b. carriage returns that are NOT line breaks after a terminator: CR (and CR LF) inside a value, CR as the segment
    #     terminator with LF inside a value: a source opened by path must deliver them like an open stream does
    for d, vals in ((('~', '*', ':'), ['FIRST\rSECOND', 'A\r\nB', '\rLEAD', 'TRAIL\r']), (('\r', '*', ':'), ['FIRST\nSECOND', 'A\n'])):
        segs = [docgen.isa('%09d' % rng.randint(1, 999999), d, '00401')]
        for v in vals:
            segs.append(docgen.seg(d, 'NTE', 'ADD', v))
            segs.append(docgen.seg(d, 'REF', '87', 'X'))
        out.append(('plain', docgen.encode(segs, d, '')))
    # 1c. ISA fields that contain the declared component separator (a sender id such as 'RECV:CLAIMS'): the header is never split
    #     inside, every field comes back character for character
    for d in (('~', '*', ':'), ('~', '|', '>')):
        for (snd, rcv) in (('RECV%sCLAIMS    ' % d[2], 'ZZ001          '), ('SENDER/BILLING%s' % d[2], '%sLEAD          ' % d[2])):
            segs = [docgen.isa('%09d' % rng.randint(1, 999999), d, '00401', sender=snd, receiver=rcv),
                    docgen.seg(d, 'GS', 'HC', 'S', 'R', '20030828', '1128', '17', 'X', '004010X098A1'), docgen.seg(d, 'REF', '87', 'X')]
            out.append(('plain', docgen.encode(segs, d, '')))
    # 2. buffer boundaries: terminator at every offset -2..+2 around k*B, k = 1..4
    d = ('~', '*', ':')
    ks = [1, 2, 3, 4] if thorough else [1, 2]
    for conv in (['', '\n', '\r\n'] if thorough else ['', '\n']):
        for off in range(-2, 3):
            segs = [docgen.isa('000000001', d)] + body_with_boundaries(rng, d, ks, [off]) + ['SE*1*1']
            out.append(('boundary', docgen.encode(segs, d, conv)))
    # 3. segments longer than one and two buffers
    for n in ([B - 50, B + 10, 2 * B + 10, 3 * B] if thorough else [B + 10, 2 * B + 10]):
        segs = [docgen.isa('000000002', d), 'NTE*' + 'Z' * n, 'REF*1*2']
        out.append(('long', docgen.encode(segs, d, '\n')))
    # 4. malformed headers
    I = docgen.isa('000000003', d)
    for t in ['', 'ISA', I[:105], I.replace('00401', '00402') + '~', 'XSA' + I[3:] + '~', ' ' + I + '~', I[:50]]:
        out.append(('badheader', t))
    return out


def schedules(rng, text, tier):
    n = len(text)
    T = text[105] if n >= 106 else '~'
    sch = [('whole', []), ('one', [1] * min(n + 5, 3000 if tier != 'thorough' else 40000)),
           ('random', [rng.choice([1, 2, 3, 7, 50, 105, 106, 107, 1000, 8191, 8192, 8193]) for _ in range(400)])]
    # adversarial: every read stops just before the next terminator
    adv, pos = [], 0
    while pos < n and len(adv) < 3000:
        j = text.find(T, pos + 1)
        if j < 0:
            break
        adv.append(max(1, j - pos))
        pos = j
    sch.append(('before-terminator', adv))
    return sch


def normalise(text):
    """the documented normalisation, computed directly on the text"""
    if len(text) < 106:
        return None
    T, E, S = text[105], text[3], text[104]
    out = []
    for piece in text.split(T)[:-1]:
        piece = piece.lstrip('\n\r')
        if piece == '':
            continue
        if piece.startswith(' '):
            piece = piece.lstrip()
        if piece == '':
            continue        # nothing but blanks: not a segment
        parts = piece.split(E)
        sid, els = parts[0], parts[1:]
        if sid != 'ISA':
            els2 = []
            for e in els:
                comps = e.split(S)
                while len(comps) > 1 and comps[-1] == '':
                    comps.pop()
                els2.append(S.join(comps))
            els = els2
        while len(els) > 1 and els[-1] == '':
            els.pop()
        out.append(sid + E + E.join(els) + T)
    return ''.join(out)


def canon_struct(st):
    """canonical form of a printed segment structure: all trailing empty components/elements dropped"""
    parts = st.split(';')
    sid, els = parts[0], parts[1:]
    cels = []
    for e in els:
        comps = e.split('.')
        while comps and comps[-1] == '':
            comps.pop()
        cels.append('.'.join(comps))
    while cels and cels[-1] == '':
        cels.pop()
    return ';'.join([sid] + cels)


def run(ctx, report):
    rng = random.Random(ctx['seed'])
    mr = core.ModelRunner()
    texts = gen_texts(ctx, rng)
    report.rule = ('documents over %d delimiter triples x 5 line conventions with empty segments, leading blanks, trailing '
                   'separators, id-only and blank-only segments, unterminated tails; terminators placed at every offset '
                   '-2..+2 around k*8192; segments longer than 1-3 buffers; malformed headers; each read under 4 schedules '
                   '(whole, one character at a time, random chunk sizes, stop-before-each-terminator), as StringIO and by '
                   'path.  Distinct = distinct (text, schedule).' % (len(docgen.DELIM_SETS) if ctx['tier'] == 'thorough' else 5))
    # long texts (buffer boundaries, over-long segments) go through the raw layer only: the segment layer of the
    # extracted model is quadratic in the length of one element (List.rev), and is exercised by the plain texts
    reqs, meta = [], []
    for kind, text in texts:
        for sname, sch in schedules(rng, text, ctx['tier']):
            if kind == 'badheader' and sname not in ('whole', 'one'):
                continue
            unit = 'raw' if kind in ('boundary', 'long') else 'reader'
            args = [text, ','.join(str(x) for x in sch)]
            reqs.append((unit, args if unit == 'raw' else ['0'] + args))
            meta.append((kind, text, sname, sch))
    spec_reqs = [('c01_rawspec' if k in ('boundary', 'long') else 'c01_spec', [t]) for (k, t) in texts]
    if ctx['driver_ok']:
        outs = mr.run(reqs + spec_reqs)
        mo, so = outs[:len(reqs)], dict(zip([t for (_, t) in texts], outs[len(reqs):]))
    else:
        mo, so = [None] * len(reqs), {}
    tmpdir = tempfile.mkdtemp(prefix='c01_')
    try:
        for k, (kind, text, sname, sch) in enumerate(meta):
            rawonly = kind in ('boundary', 'long')
            io_ = implrun.impl_raw(text, list(sch)) if rawonly else implrun.impl_reader(0, text, list(sch))
            report.case((text, sname))
            report.count('kind:' + kind)
            report.count('schedule:' + sname)
            if mo[k] is not None:
                report.corr_case('raw' if rawonly else 'reader_iter', {'text': text, 'schedule': sname, 'caps': sch[:50]}, mo[k], io_)
            spec = so.get(text)
            if spec is None:
                continue
            if rawonly:
                report.count('rawspec-applied')
                got = '|'.join(io_.split('|')[1:]) if not io_.startswith('!') else io_
                if got != spec:
                    report.fail('C01:raw-lines-differ:%s:schedule:%s' % (kind, sname),
                                'raw segment strings differ from the terminated non-empty pieces of the text',
                                {'text': text, 'how': 'schedule:' + sname, 'caps': sch[:50]},
                                n_got=got.count('|') + 1, n_expected=spec.count('|') + 1)
            else:
                check_against_spec(report, text, io_, spec, 'schedule:' + sname)
            if k % 53 == 0:
                report.sample({'kind': kind, 'schedule': sname, 'text_len': len(text), 'text_head': text[106:300]})
        # source kinds: StringIO and by path, plus the round trip
        for kind, text in texts:
            spec = so.get(text)
            if spec is None:
                continue
            o1 = implrun.impl_reader(0, text, [], stream=io.StringIO(text))
            if kind not in ('boundary', 'long'):
                check_against_spec(report, text, o1, spec, 'source:StringIO')
            if all(ord(c) < 128 for c in text):
                p = os.path.join(tmpdir, 'doc.x12')
                with open(p, 'w', encoding='ascii', newline='') as f:
                    f.write(text)
                o2 = implrun.impl_reader(0, text, [], stream=p)
                report.count('source:path')
                report.evaluations += 1
                if o2 != o1:
                    report.fail('C01:path-vs-stream:%s' % ('raises' + o2 if o2.startswith('!') else 'differs'),
                                'reading by path gives a different segment stream than reading the same text as a stream',
                                {'text': text}, by_path=o2[:300], by_stream=o1[:300])
            if kind == 'badheader' or o1.startswith('!'):
                continue
            round_trip(report, text, o1)
    finally:
        for f in os.listdir(tmpdir):
            os.remove(os.path.join(tmpdir, f))
        os.rmdir(tmpdir)


def strip_envelope_errors(o):
    """keep structures and only the two tokenisation errors (seg/1 with line = leading blank is ambiguous with
    invalid id; we keep SEG1 and count of seg/1)"""
    if o.startswith('!'):
        return o
    parts = o.split('|')
    out = []
    for p in parts[1:]:
        if p.startswith('C') or p.startswith('!'):
            continue
        st, _, es = p.rpartition(':')
        codes = [e.split('/')[1] for e in es.split(',') if e]
        out.append((st, 'SEG1' in codes, codes.count('1')))
    return parts[0], out


def check_against_spec(report, text, impl_out, spec, how):
    report.count(how)
    if spec.startswith('!'):
        if impl_out != spec:
            report.fail('C01:bad-header-not-refused', 'text without a well-formed ISA header was not refused with X12Error',
                        {'text': text[:200]}, got=impl_out[:100])
        return
    if impl_out.startswith('!'):
        report.fail('C01:reader-raises:%s:%s' % (impl_out, how.split(':')[0]), 'reading raised', {'text': text, 'how': how})
        return
    hdr, got = strip_envelope_errors(impl_out)
    exp = []
    for p in spec.split('|') if spec else []:
        st, _, fl = p.rpartition(':')
        exp.append((st, fl[1] == 'T', fl[0] == 'T'))
    if impl_out.split('|')[-1].startswith('!'):
        return  # X12Error in the middle (extra ISA): outside this generator
    if [g[0] for g in got] != [e[0] for e in exp]:
        i = next((j for j in range(min(len(got), len(exp))) if got[j][0] != exp[j][0]), min(len(got), len(exp)))
        report.fail('C01:segments-differ:%s' % how, 'segment %d of %d/%d differs from the specified tokenisation' % (
            i + 1, len(got), len(exp)), {'text': text, 'how': how},
            got=got[i][0] if i < len(got) else None, expected=exp[i][0] if i < len(exp) else None)
        return
    for j, (g, e) in enumerate(zip(got, exp)):
        if g[1] != e[1]:
            report.fail('C01:trailing-separator-flag', 'SEG1 error %s but trailing separator %s' % (g[1], e[1]),
                        {'text': text, 'segment': j + 1})
            return
        if e[2] and g[2] < 1:
            report.fail('C01:leading-blank-not-flagged', 'leading blank dropped without an error', {'text': text, 'segment': j + 1})
            return


def round_trip(report, text, o1):
    import pyx12.x12file
    src = pyx12.x12file.X12Reader(io.StringIO(text))
    try:
        segs = list(src)
    except Exception:  # noqa
        return
    T, E, S = src.seg_term, src.ele_term, src.subele_term
    formatted = ''.join(s.format(T, E, S) for s in segs)
    report.count('roundtrip')
    report.evaluations += 1
    nrm = normalise(text)
    if nrm is not None and formatted != nrm:
        report.fail('C01:normalisation', 'formatted text differs from the input by more than the documented normalisations',
                    {'text': text}, formatted=formatted[:300], expected=nrm[:300])
        return
    o2 = implrun.impl_reader(0, formatted, [], stream=io.StringIO(formatted))
    if o2.startswith('!'):
        report.fail('C01:reread-raises', 'formatted text cannot be read back', {'text': text}, got=o2)
        return
    g1 = [canon_struct(x[0]) for x in strip_envelope_errors(o1)[1]]
    g2s = [x[0] for x in strip_envelope_errors(o2)[1]]
    g2 = [canon_struct(x) for x in g2s]
    if g1 != g2:
        report.fail('C01:reread-differs', 'reading the formatted text gives different segments', {'text': text})
        return
    src2 = pyx12.x12file.X12Reader(io.StringIO(formatted))
    try:
        segs2 = list(src2)
    except Exception:  # noqa
        return
    f2 = ''.join(s.format(T, E, S) for s in segs2)
    o3 = implrun.impl_reader(0, f2, [], stream=io.StringIO(f2))
    if f2 != formatted or [x[0] for x in strip_envelope_errors(o3)[1]] != g2s:
        report.fail('C01:not-idempotent', 'a second format/read round changes the result', {'text': text})


def replay(rp):
    f = rp.get('failure') or {}
    inp = f.get('input') or {}
    print(f.get('what'))
    if 'text' in inp:
        print(implrun.impl_reader(0, inp['text'], [])[:1500])
    return 1
