"""C16 — shipped maps, index and code tables are consistent and fully addressable."""
import os
import random
import shutil
import tempfile

import core
import mapser
import mapsrc

META = {
    'theorem_files': ['Props/C16.v'],
    'theorems': ['C16_maps_consistent', 'C16_index_consistent'],
    'generators': [],
    'trusted_base': [
        'Coq 8.16.1 kernel; vm_compute (one evaluation per shipped map); no native_compute',
        'tools/gen/maps.py: transcription of every XML file of pyx12/map into Coq element trees (text of leaf elements, '
        'attributes, child order), cross-checked every run by comparing the implementation\'s loaded tree with the model\'s '
        'load of the same file, node by node',
        'tools/gen/c16.py: generation of the per-map obligations and of the expected (recorded) offenders from known_findings.json',
        'Model/MapLoad.v, Model/MapTree.v: hand transcription of the map_if constructors, DataElements, ExternalCodes, '
        'map_index, get_path, getnodebypath, getnodebypath2',
        'Lib/XmlSer.v + ocaml/driver.ml `loadxml`: glue that ships the XML to the extracted model (correspondence only)',
        'Spec/C16_spec.v: the clauses, incl. the structural definition of nodes the path scheme cannot address (shadowed)',
        'xml.etree / expat as the XML parser on both sides',
    ],
    'assumptions': ['"explicit map directory = packaged resources" is two I/O routes to the same bytes: tested by loading '
                    'from a copy of the directory, not modelled'],
}


def kids(n):
    return [c for k in sorted(n.pos_map) for c in n.pos_map[k]]


def first_seg(n):
    while not n.is_segment():
        ks = kids(n)
        if not ks:
            return None
        n = ks[0]
    return n


def key_codes(sg):
    try:
        e = sg.guess_unique_key_id_element()
    except Exception:  # noqa
        return []
    return list(e.valid_codes) if e is not None else []


def seg_qual(sg):
    if sg.path and sg.id and len(sg.path) > len(sg.id):
        return sg.path[len(sg.id) + 1:-1]
    return None


def seg_shadowed(kidlist, i, sg):
    earlier = [k for k in kidlist[:i] if k.is_segment() and k.id == sg.id]
    q = seg_qual(sg)
    if q is None:
        return bool(earlier)
    return any(q in key_codes(k) for k in earlier)


def seglike(i):
    import re
    return bool(i) and re.fullmatch(r'[A-Z][A-Z0-9]{1,2}', i) is not None


def check_map(report, name, m):
    """the clauses of the property on the implementation's own objects"""
    refs = mapser.node_refs(m)
    by_ref = dict(refs)
    ident = {id(n): r for r, n in refs}
    seen_paths = {}
    for ref, n in refs:
        kind = type(n).__name__
        parent_ref = ref[:-1]
        if kind in ('loop_if', 'segment_if'):
            plist = kids(by_ref[parent_ref]) if parent_ref else kids(m)
        # ---- shadowed?
        if kind == 'loop_if':
            shadowed = seglike(n.id)
        elif kind == 'segment_if':
            shadowed = seg_shadowed(plist, ref[-1], n)
        else:
            sref = ref[:-1] if by_ref[ref[:-1]].is_segment() else ref[:-2]
            sg = by_ref[sref]
            sk = kids(by_ref[sref[:-1]]) if sref[:-1] else kids(m)
            shadowed = bool([k for k in sk[:sref[-1]] if k.is_segment() and k.id == sg.id])
        try:
            p = n.get_path()
        except Exception as e:  # noqa
            report.fail('C16:get-path-raises:%s:%s' % (name, kind), 'get_path raised %s' % type(e).__name__, {'map': name, 'ref': ref})
            continue
        report.evaluations += 1
        # ---- fetched again by its own path
        ok2 = False
        try:
            ok2 = m.getnodebypath2(p) is n
        except Exception:  # noqa
            ok2 = False
        ok1 = True
        if kind in ('loop_if', 'segment_if') and not (kind == 'loop_if' and seglike(n.id)):
            try:
                ok1 = m.getnodebypath(p) is n
            except Exception:  # noqa
                ok1 = False
        if not (ok1 and ok2):
            if shadowed:
                report.fail('C16:addr-shadowed:%s' % kind, 'node cannot be fetched by its path (shadowed)', {'map': name, 'path': p})
            else:
                report.fail('C16:addr:%s:%s' % (name, p), 'node is not returned by getnodebypath%s(its own path)' % ('2' if not ok2 else ''),
                            {'map': name, 'path': p, 'kind': kind})
        # ---- unique
        if p in seen_paths and not shadowed:
            report.fail('C16:dup:%s:%s' % (name, p), 'two addressable nodes report the same path', {'map': name, 'path': p})
        elif p in seen_paths:
            report.fail('C16:dup-shadowed:%s' % kind, 'path shared with the node that shadows this one', {'map': name, 'path': p})
        elif not shadowed:
            seen_paths[p] = ref
        # ---- shapes and references
        if kind == 'loop_if':
            if n.usage not in ('R', 'S', 'N') or not n.pos > 0 or \
                    not (n.repeat is None or n.repeat in ('>1', '&gt;1') or (n.repeat.isdigit() and int(n.repeat) >= 1)):
                report.fail('C16:shape-loop:%s:%s' % (name, n.id), 'loop usage/pos/repeat ill-formed', {'map': name, 'path': p})
        elif kind == 'segment_if':
            bad = n.usage not in ('R', 'S', 'N') or not n.pos > 0 or not n.children or \
                not (n.max_use is None or n.max_use == '>1' or (n.max_use.isdigit() and int(n.max_use) >= 1)) or \
                [c.seq for c in n.children] != list(range(1, len(n.children) + 1)) or \
                any(not (len(sy) >= 3 and sy[0] in 'PRECL' and all(1 <= x <= len(n.children) for x in sy[1:])) for sy in n.syntax)
            for c in n.children:
                subs = c.children if c.is_composite() else [c]
                if c.is_composite() and c.usage not in ('R', 'S', 'N'):
                    bad = True
                for e in subs:
                    if e.usage not in ('R', 'S', 'N'):
                        bad = True
                    if not e.data_ele or e.data_ele not in m.data_elements.dataele or \
                            (e.external_codes is not None and e.external_codes not in m.ext_codes.codes):
                        report.fail('C16:ref:%s:%s:%s' % (name, e.id, e.data_ele), 'undefined data element / external code set',
                                    {'map': name, 'element': e.id, 'data_ele': e.data_ele, 'external': e.external_codes})
            if bad:
                report.fail('C16:shape-seg:%s:%s' % (name, n.id), 'segment usage/limits/positions/syntax notes ill-formed', {'map': name, 'path': p})
    # ---- siblings at one position
    def sibwalk(n):
        for k in sorted(n.pos_map):
            g = n.pos_map[k]
            for i in range(len(g)):
                for j in range(i + 1, len(g)):
                    a, b = first_seg(g[i]), first_seg(g[j])
                    if a is None or b is None or (a.id == b.id and (not key_codes(a) or not key_codes(b) or set(key_codes(a)) & set(key_codes(b)))):
                        report.fail('C16:siblings:%s:%s:%d:%s' % (name, n.id, k, a.id if a is not None else '?'),
                                    'same-position siblings cannot be told apart', {'map': name, 'loop': n.id, 'pos': k})
            for c in g:
                if c.is_loop():
                    sibwalk(c)
    sibwalk(m)
    return ident


def run(ctx, report):
    rng = random.Random(ctx['seed'])
    mr = core.ModelRunner()
    thorough = ctx['tier'] == 'thorough'
    import pyx12.map_index
    idx = pyx12.map_index.map_index()
    indexed = []
    for a in idx.maps:
        if a['map_file'] not in indexed:
            indexed.append(a['map_file'])
    names = sorted(set(indexed) | {'x12.control.00401.xml', 'x12.control.00501.xml'})
    report.rule = ('every map file the index names + the two control maps: loaded tree compared node by node with the model '
                   '(packaged resources and an explicit copy of the directory); every node path compared; getnodebypath/2 on '
                   'every node path (quick: 8 maps) and on mutated paths; every index key + near misses; the clauses of the '
                   'property evaluated on the implementation\'s objects.  Distinct = distinct (map, node) / query.')
    present = set(os.listdir(mapser.MAPDIR))
    for f in indexed:
        if f not in present:
            report.fail('C16:index-file-missing:%s' % f, 'the index names a file that is not shipped', {'file': f})
    names = [n for n in names if n in present]
    # ---- index keys
    keys = [(a['icvn'], a['vriic'], a['fic'], a['tspc']) for a in idx.maps]
    seen = set()
    for k in keys:
        if k in seen:
            report.fail('C16:index-ambiguous:%s' % '/'.join(str(x) for x in k), 'two index entries with the same key', {'key': k})
        seen.add(k)
    # the index file read independently: every entry's full key answers with the entry's own file and abbreviation (the first
    # entry in file order when the key without tspc is shared), a key that is in the file under no entry answers None
    import xml.etree.ElementTree as _et
    file_entries = []
    for v in _et.parse(os.path.join(mapser.MAPDIR, 'maps.xml')).getroot().iter('version'):
        for m_ in v.iterfind('map'):
            file_entries.append((v.get('icvn'), m_.get('vriic'), m_.get('fic'), m_.get('tspc'), (m_.text or ''), m_.get('abbr')))
    report.count('index-entries-in-file', len(file_entries))
    file_keys = set(e[:3] for e in file_entries)
    for (icvn, vriic, fic, tspc, fname, abbr) in file_entries:
        report.case(('index-entry', icvn, vriic, fic, tspc))
        first = next(e for e in file_entries if e[:4] == (icvn, vriic, fic, tspc))
        got = (idx.get_filename(icvn, vriic, fic, tspc), idx.get_abbr(icvn, vriic, fic, tspc))
        if got != (first[4], first[5]):
            report.fail('C16:index-key-answers-other-entry', 'index key %r answers %r, its entry in maps.xml names %r' % (
                (icvn, vriic, fic, tspc), got, (first[4], first[5])), {'key': [icvn, vriic, fic, tspc]})
        first3 = next(e for e in file_entries if e[:3] == (icvn, vriic, fic))
        if idx.get_filename(icvn, vriic, fic) != first3[4]:
            report.fail('C16:index-key-answers-other-entry:no-tspc', 'index key %r answers %r, the first such entry in maps.xml names %r' % (
                (icvn, vriic, fic), idx.get_filename(icvn, vriic, fic), first3[4]), {'key': [icvn, vriic, fic]})
        for near in ((icvn, vriic + 'A1', fic), (icvn, vriic + 'X', fic), (icvn, vriic[:-1], fic), (icvn, vriic[:-2], fic), (icvn, vriic.lower(), fic)):
            if near not in file_keys and near[1] and idx.get_filename(*near) is not None:
                report.fail('C16:index-answers-unlisted-key', 'key %r is not in maps.xml but answers %r' % (near, idx.get_filename(*near)), {'key': list(near)})
    queries = []
    for (icvn, vriic, fic, tspc) in keys:
        queries.append((icvn, vriic, fic, None))
        queries.append((icvn, vriic, fic, tspc))
        queries.append((icvn, vriic, fic, '99'))
        queries.append((icvn, vriic + 'X', fic, tspc))
        queries.append(('00999', vriic, fic, tspc))
        queries.append((icvn, vriic, 'ZZ', None))
    qargs = []
    for q in queries:
        qargs.extend('~' if x is None else x for x in q)
    tmp = tempfile.mkdtemp(prefix='c16_')
    try:
        mapcopy = os.path.join(tmp, 'map')
        shutil.copytree(mapser.MAPDIR, mapcopy)
        pre = mapser.preload(names)
        getnode_maps = names if thorough else [n for n in names if n.startswith(
            ('837.5010.X222', '834.5010', '999.5010.xml', '270.4010', '835.4010', '278.4010.X094.A1', 'x12.control.00401', '997'))]
        reqs = [('mapindex', qargs)]
        for n in names:
            reqs.append(('mapdump', [n, '', 'B']))
            reqs.append(('mappaths', [n]))
        impl = {}
        idents = {}
        for n in names:
            d, m = mapser.impl_mapdump(n)
            d2, m2 = mapser.impl_mapdump(n, map_path=mapcopy)
            impl[n] = (d, m)
            report.case(('load', n))
            report.count('maps')
            if d != d2:
                report.fail('C16:explicit-dir-differs:%s' % n, 'loading from an explicit map directory gives a different tree', {'map': n})
            if m is None:
                report.fail('C16:load:%s:%s' % (n, d), 'map named by the index does not load (%s)' % d, {'map': n})
                continue
            idents[n] = check_map(report, n, m)
        gn_reqs = []
        for n in getnode_maps:
            m = impl[n][1]
            if m is None:
                continue
            paths = []
            for ref, node in mapser.node_refs(m):
                try:
                    paths.append(node.get_path())
                except Exception:  # noqa
                    pass
            paths = sorted(set(paths))
            if not thorough and len(paths) > 1500:
                paths = rng.sample(paths, 1500)
            muts = []
            for p in rng.sample(paths, min(len(paths), 200)):
                muts += [p + '/', p.lower(), p + '99', p.replace('/', '//', 1), p[1:], p + '-1', p + '[XX]', p.rsplit('/', 1)[0] + '/ZZZ']
            allp = paths + muts + ['', '/', '//', 'ISA', '/ISA_LOOP', '/isa_loop/isa', '/ISA_LOOP/GS_LOOP/ST_LOOP/HEADER/BHT']
            for which in ('1', '2'):
                gn_reqs.append((n, which, allp))
                reqs.append(('getnode', [n, which] + allp))
        outs = mr.run(reqs, preload=pre, shards=min(16, len(reqs))) if ctx['driver_ok'] else [None] * len(reqs)
        k = 0
        # index
        got_idx = '|'.join(('S' + ('N' if f is None else 'S' + f.encode().hex())) if f is not None else 'N'
                           for f in [idx.get_filename(*q) for q in queries])
        # model prints show_opt show_ostr: None -> N ; Some file -> S S<hex>
        if outs[k] is not None:
            report.corr_case('mapindex', {'queries': len(queries)}, outs[k], got_idx)
        k += 1
        for n in names:
            d, m = impl[n]
            if outs[k] is not None:
                report.corr_case('mapload', {'map': n}, outs[k], d)
            k += 1
            if m is not None and outs[k] is not None:
                ipaths = []
                for ref, node in mapser.node_refs(m):
                    try:
                        ps = node.get_path().encode('latin-1').hex()
                    except Exception as e:  # noqa
                        ps = core.exn_name(e)
                    ipaths.append('.'.join(str(i) for i in ref) + ':' + ps)
                report.corr_case('mappaths', {'map': n}, outs[k], '|'.join(ipaths))
            k += 1
        for (n, which, allp) in gn_reqs:
            m = impl[n][1]
            res = []
            for p in allp:
                try:
                    r = m.getnodebypath2(p) if which == '2' else m.getnodebypath(p)
                    if r is None:
                        res.append('N')
                    else:
                        ref = idents[n].get(id(r))
                        res.append('S' + ('.'.join(str(i) for i in ref) if ref is not None else '?'))
                except Exception as e:  # noqa
                    res.append(core.exn_name(e))
            if outs[k] is not None:
                mo = outs[k].split('|')
                for p, a, b in zip(allp, mo, res):
                    report.corr_case('getnodebypath' + which, {'map': n, 'path': p}, a, b)
                    report.evaluations += 1
            k += 1
        report.sample({'maps_checked': names[:5], 'index_queries': len(queries)})
    finally:
        shutil.rmtree(tmp, ignore_errors=True)


def replay(rp):
    f = rp.get('failure') or {}
    print(f.get('what'), f.get('input'))
    return 1
