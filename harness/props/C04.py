"""C04 — envelope, control-number and counter checks are exact."""
import random

import core
import docgen
import implrun

META = {
    'theorem_files': ['Props/C04.v'],
    'theorems': [],
    'trusted_base': [
        'Coq 8.16.1 kernel; no native_compute',
        'Model/Reader.v: hand transcription of X12Base._parse_segment, X12Reader._parse_segment/__iter__/cleanup',
        'Lib/PyInt.v as a model of int(str) on code points 0..255 (tied by the pyint correspondence unit)',
        'tools/gen/consts.py (ids excluded from the segment count)',
        'extraction (ExtrOcamlBasic only) + ocaml/driver.ml',
        'Spec/C04_spec.v: the nesting tree and the recount are my reading of the property',
    ],
    'assumptions': ['error message texts are not modelled (level, code and source line are)'],
}

ENV_LEVELS = ('isa', 'gs', 'st')


def parse_reader_out(o):
    """-> (header, [(struct, [(lvl, code, line)])], final) where final is list of errs or '!Exn'"""
    if o.startswith('!'):
        return None, [], o
    parts = o.split('|')
    hdr = parts[0]
    segs = []
    final = None
    for p in parts[1:]:
        if p.startswith('!'):
            final = p
        elif p.startswith('C'):
            final = parse_errs(p[1:])
        else:
            st, _, es = p.rpartition(':')
            segs.append((st, parse_errs(es)))
    return hdr, segs, final


def parse_errs(s):
    out = []
    if not s:
        return out
    for e in s.split(','):
        lvl, code, line = e.split('/')
        out.append((lvl, code, line))
    return out


def hl_lx_expected(seg_texts, d, lx_flag):
    """independent recount of HL1 / HL2 / LX per segment (stack semantics of the property)"""
    out = []
    hl_count, stack, lx_count = 0, [], 0
    for s in seg_texts:
        s2 = s.lstrip() if s.startswith(' ') else s
        parts = s2.split(d[1])
        sid = parts[0]
        errs = []

        def val(i):
            if len(parts) > i:
                comp = parts[i].split(d[2])
                while len(comp) > 1 and comp[-1] == '':
                    comp.pop()
                return d[2].join(comp)
            return None

        def to_int(v):
            try:
                return int(v)
            except (ValueError, TypeError):
                return None
        if sid == 'ST':
            hl_count, stack = 0, []
        elif sid == 'HL':
            hl_count += 1
            if to_int(val(1)) != hl_count:
                errs.append('HL1')
            p = val(2)
            if p != '':
                pi = to_int(p)
                if pi not in stack:
                    errs.append('HL2')
                while stack and stack[-1] != pi:
                    stack.pop()
            stack.append(hl_count)
        elif lx_flag and sid == 'CLM':
            lx_count = 0
        elif lx_flag and sid == 'LX':
            lx_count += 1
            if val(1) != str(lx_count):
                errs.append('LX')
        out.append(sorted(errs))
    return out


def gen_docs(ctx, rng):
    """(kind, delims, segs, lx)"""
    n = 6000 if ctx['tier'] == 'thorough' else 700
    docs = []
    for k in range(n):
        d = rng.choice(docgen.DELIM_SETS[:4])
        faults = rng.choice([0.0, 0.0, 0.15, 0.4])
        lx = rng.random() < 0.4
        segs = docgen.envelope_doc(rng, d, icvn=rng.choice(['00401', '00501']), n_isa=rng.choice([1, 1, 2, 3]),
                                   max_groups=3, max_sets=3, max_body=6, faults=faults, hl=True, lx=lx)
        kind = 'nested-faulty' if faults else 'nested-clean'
        r = rng.random()
        if r < 0.25:
            # trailers missing at end of input
            cut = rng.randint(1, len(segs))
            segs = segs[:cut]
            kind = 'truncated'
        elif r < 0.6:
            for _ in range(rng.choice([1, 1, 2, 3])):
                segs = docgen.mutate_structure(rng, segs, d)
            kind = 'mutated'
        docs.append((kind, d, segs, lx))
    # a complete, self-consistent unit (whole group GS..GE, or whole set ST..SE, own unused control numbers, right counts) placed
    # where it does not belong: after the IEA (outside every interchange), or between ISA and the first GS / inside another set.
    # The ONLY defect is the placement.
    for k in range(120 if ctx['tier'] == 'thorough' else 30):
        d = rng.choice(docgen.DELIM_SETS[:4])
        a = docgen.envelope_doc(rng, d, icvn='00401', n_isa=1, max_groups=2, max_sets=2, max_body=3, faults=0.0, hl=True, lx=False)
        b = docgen.envelope_doc(rng, d, icvn='00401', n_isa=1, max_groups=1, max_sets=1, max_body=2, faults=0.0, hl=True, lx=False)
        ids = [docgen.seg_id_of(x, d) for x in b]
        unit = None
        if rng.random() < 0.5 and 'GS' in ids and 'GE' in ids:
            unit = b[ids.index('GS'):ids.index('GE') + 1]
        elif 'ST' in ids and 'SE' in ids:
            unit = b[ids.index('ST'):ids.index('SE') + 1]
        if not unit:
            continue
        where = rng.choice(['after-iea', 'after-iea', 'after-isa'])
        segs = a + unit if where == 'after-iea' else a[:1] + unit + a[1:]
        docs.append(('displaced-unit:' + where, d, segs, False))
    # hand-written arrangements (first: the ones that used to crash or be silent)
    d = ('~', '*', ':')
    I = docgen.isa('000000001', d)
    corpus = [
        [I, 'ST*837*0001', 'SE*2*0001', 'IEA*0*000000001'],
        [I, 'IEA*0*000000001', 'IEA*0*000000001'],
        [I, 'GS*HC*A*B*20030828*1128*1*X*004010X098', 'SE*1*1', 'GE*0*1', 'IEA*1*000000001'],
        [I, 'GE*0*1'], [I, 'SE*1*1'], [I, 'IEA'], [I, 'GS', 'GE', 'IEA'], [I, 'GS', 'ST', 'SE', 'GE', 'IEA'],
        [I, I, 'IEA*0*000000001', 'IEA*0*000000001'],
        [I, 'GS*HC*A*B*20030828*1128*1*X*004010X098', 'GS*HC*A*B*20030828*1128*2*X*004010X098', 'GE*0*2', 'GE*0*1', 'IEA*1*000000001'],
        [I, 'GS*HC*A*B*20030828*1128*1*X*004010X098', 'ST*837*1', 'HL', 'HL*1*x*20', 'HL*3*1*22', 'SE*5*1', 'GE*1*1', 'IEA*1*000000001'],
        [I, 'GS*HC*A*B*20030828*1128*1*X*004010X098', 'ST*837*1', ' ', 'SE*3*1', 'GE*1*1', 'IEA*1*000000001'],
        [I, 'GS*HC*A*B*20030828*1128*1*X*004010X098', 'ST*837*1', 'SE* 2 *1', 'GE*+1*1', 'IEA*1_0*000000001'],
    ]
    for c in corpus:
        docs.insert(0, ('corpus', d, c, True))
    return docs


def run(ctx, report):
    rng = random.Random(ctx['seed'])
    mr = core.ModelRunner()
    docs = gen_docs(ctx, rng)
    report.rule = ('nested documents (1-3 interchanges x 0-3 groups x 0-3 sets x 0-6 body segments incl. HL forests and '
                   'LX runs) with ids/counts correct or perturbed (duplicate, mismatched, non-numeric, padded), '
                   'truncations at every kind of point, and 1-3 structural mutations (delete/duplicate/move/retag/orphan/'
                   'swap of header and trailer segments); 4 delimiter sets; a corpus of former crashes. Distinct = distinct text.')
    texts = [docgen.encode(segs, d, rng.choice(docgen.LINE_CONVS[:3]) if d[0] not in '\n\r' else '') for (_, d, segs, _) in docs]
    reqs = [('reader', ['1' if lx else '0', t, '']) for t, (_, d, segs, lx) in zip(texts, docs)]
    reqs_spec = [('c04_spec', [''.join(d)] + segs[:]) for (_, d, segs, _) in docs]
    if ctx['driver_ok']:
        outs = mr.run(reqs + reqs_spec)
        mo, so = outs[:len(docs)], outs[len(docs):]
    else:
        mo = so = [None] * len(docs)
    for k, (kind, d, segs, lx) in enumerate(docs):
        io = implrun.impl_reader(lx, texts[k], [])
        report.case(texts[k])
        report.count('kind:' + kind)
        if mo[k] is not None:
            report.corr_case('reader', {'text': texts[k], 'lx': lx}, mo[k], io)
        hdr, got, final = parse_reader_out(io)
        if isinstance(final, str) or final is None:
            exn = final or io
            report.count('impl:raise:' + str(exn))
            if exn != '!X12Error':
                report.fail('C04:reader-raises:%s' % exn, 'reading raised %s' % exn, {'text': texts[k], 'lx': lx})
            continue
        if so[k] is None:
            continue
        nested_flag, exp_per_seg, exp_end = so[k].split('|')
        env_got = [sorted((l, c) for (l, c, _) in es if l in ENV_LEVELS) for (_, es) in got]
        end_got = sorted((l, c) for (l, c, _) in final if l in ENV_LEVELS)
        total_env = sum(len(x) for x in env_got) + len(end_got)
        report.count('nested:' + nested_flag)
        if k % 97 == 0:
            report.sample({'kind': kind, 'text': texts[k][:400], 'envelope_errors': [e for e in env_got if e], 'at_end': end_got})
        if nested_flag == 'F':
            if total_env == 0:
                report.fail('C04:ill-nested-silent:%s' % arrangement(segs, d),
                            'header/trailer arrangement is not properly nested but no envelope error was reported',
                            {'text': texts[k], 'lx': lx})
            continue
        if exp_per_seg.startswith('S') and len(got) == len(segs):
            report.count('exact-recount-applied')
            exp = [sorted(tuple(c.split('/')) for c in x.split(',') if c) for x in exp_per_seg[1:].split(';')]
            exp_e = sorted(tuple(c.split('/')) for c in exp_end.split(',') if c)
            if len(exp) != len(env_got):
                continue
            for i, (e, g) in enumerate(zip(exp, env_got)):
                if e != g:
                    report.fail('C04:recount:%s:%s' % (docgen.seg_id_of(segs[i].lstrip(), d), diffkey(e, g)),
                                'segment %d (%s): envelope errors %r, independent recount %r' % (i + 1, segs[i][:40], g, e),
                                {'text': texts[k], 'lx': lx}, segment_index=i)
                    break
            if exp_e != end_got:
                report.fail('C04:recount:end-of-input:%s' % diffkey(exp_e, end_got),
                            'at end of input: %r, recount %r' % (end_got, exp_e), {'text': texts[k], 'lx': lx})
        # HL / LX numbering
        if len(got) == len(segs):
            want = hl_lx_expected(segs, d, lx)
            for i, (_, es) in enumerate(got):
                g = sorted(c for (l, c, _) in es if c in ('HL1', 'HL2', 'LX'))
                if g != want[i]:
                    report.fail('C04:hl-lx:%s' % diffkey(want[i], g), 'segment %d (%s): %r, recount %r' % (i + 1, segs[i][:40], g, want[i]),
                                {'text': texts[k], 'lx': lx}, segment_index=i)
                    break


def diffkey(exp, got):
    missing = [x for x in exp if x not in got]
    extra = [x for x in got if x not in exp]
    f = lambda x: '/'.join(x) if isinstance(x, tuple) else str(x)
    return 'missing[%s]extra[%s]' % (','.join(f(x) for x in missing), ','.join(f(x) for x in extra))


def arrangement(segs, d):
    return '-'.join(docgen.seg_id_of(s.lstrip(), d) for s in segs if docgen.seg_id_of(s.lstrip(), d) in docgen.ENVELOPE)[:60]


def replay(rp):
    f = rp.get('failure') or {}
    inp = f.get('input') or {}
    if 'text' in inp:
        print(f.get('what'))
        print('reader output now:', implrun.impl_reader(inp.get('lx'), inp['text'], [])[:2000])
        return 1
    print(rp.get('broken'))
    return 1
