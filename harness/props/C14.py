"""C14 — syntax notes (P, R, E, C, L) are evaluated exactly as X12 defines them."""
import itertools
import random

import core
import implrun
import mapsrc

META = {
    'theorem_files': ['Props/C14.v'],
    'theorems': ['C14_syntax_exact', 'C14_parsed_segments_wf', 'C14_syntax_routing'],
    'trusted_base': [
        'Coq 8.16.1 kernel; vm_compute for the sweep over designators 01..99; no native_compute',
        'Model/Syntax.v, Model/Segment.v, Model/Path.v: hand transcription of is_syntax_valid, _split_syntax, the '
        'syntax loop of segment_if.is_valid, Segment.get_value and X12Path',
        'tools/gen/regexes.py (rec_path), Lib/Regex.v matcher',
        'extraction (ExtrOcamlBasic only) + ocaml/driver.ml',
        'Spec/C14_spec.v: my reading of the five X12 relational conditions',
    ],
    'assumptions': ['note positions are 1..99 (two-digit designators); a note has at least two positions '
                    '(shorter notes are reported invalid by the code and are outside the X12 definition)'],
}

DELIMS = '~*:'


def seg_for(seg_id, positions, pattern, length, rng):
    """a segment of `length` elements where position p (1-based) is non-empty iff pattern says so;
    positions not mentioned get random presence"""
    vals = []
    for p in range(1, length + 1):
        if p in positions:
            on = pattern[positions.index(p)]
        else:
            on = rng.random() < 0.5
        if on:
            vals.append(rng.choice(['X', 'AB', '1', ' ', 'A:B', ':B']))
        else:
            vals.append(rng.choice(['', '', ':', '::']) if rng.random() < 0.3 else '')
    return '*'.join([seg_id] + vals)


def note_cases(code, idxs, rng, tier):
    n = len(idxs)
    pats = list(itertools.product([False, True], repeat=n)) if n <= 6 else \
        [tuple(rng.random() < 0.5 for _ in range(n)) for _ in range(64)]
    mx = max(idxs) if idxs else 1
    lengths = sorted(set([0, 1, min(idxs) - 1 if idxs else 0, min(idxs) if idxs else 0, mx - 1, mx, mx + 1]))
    lengths = [x for x in lengths if x >= 0]
    if tier != 'thorough':
        lengths = [x for x in lengths if x in (0, mx - 1, mx, mx + 1)]
    for pat in pats:
        for ln in lengths:
            yield pat, ln


def collect_notes(tier):
    """(map, segment path, seg id, [code, idx...]) for every syntax note in the shipped maps, via the implementation"""
    names = mapsrc.map_names()
    if tier != 'thorough':
        names = mapsrc.quick_subset(names)
    out = []
    for n in names:
        try:
            m = mapsrc.load(n)
        except Exception:  # noqa (C16)
            continue
        try:
            xn = xml_notes(n)
        except Exception:  # noqa
            xn = None
        seen = {}
        for node in mapsrc.iter_nodes(m):
            if node.is_segment():
                # the notes the map FILE gives this segment (not what the loaded object kept)
                if xn is not None:
                    key = (node.parent.get_path(), node.id, str(node.pos), (node.name or '').strip())
                    k = seen.get(key, 0)
                    seen[key] = k + 1
                    occ = xn.get(key)
                    FILE_NOTES[(n, id(node))] = occ[k] if occ is not None and k < len(occ) else None
                fn = FILE_NOTES.get((n, id(node)))
                for syn in (fn if fn is not None else node.syntax):
                    out.append((n, node, list(syn)))
                if fn is not None and sorted(map(list, node.syntax)) != sorted(fn):
                    NOTES_DIFFER.append((n, node.get_path(), [list(x) for x in node.syntax], fn))
    return out


NOTES_DIFFER = []


FILE_NOTES = {}


def parse_note(text):
    """a syntax note text read by the X12 convention: a letter, then two-digit positions (my own reading; None when not a note)"""
    t = (text or '').strip()
    if len(t) < 3 or t[0] not in 'PRECL' or (len(t) - 1) % 2 or not t[1:].isdigit():
        return None
    return [t[0]] + [int(t[i:i + 2]) for i in range(1, len(t), 2)]


def xml_notes(mapfile):
    """{(loop path, segment id, pos, name): [[note, ...] per occurrence in document order]} read straight from the XML"""
    import os
    import xml.etree.ElementTree as et
    out = {}
    root = et.parse(os.path.join(core.REPO, 'pyx12', 'map', mapfile)).getroot()

    def walk(el, path):
        for ch in el:
            if ch.tag == 'loop':
                walk(ch, path + [ch.get('xid')])
            elif ch.tag == 'segment':
                notes = [parse_note(x.text) for x in ch.findall('syntax')]
                key = ('/' + '/'.join(path), ch.get('xid'), (ch.findtext('pos') or '').strip(), (ch.findtext('name') or '').strip())
                out.setdefault(key, []).append([n for n in notes if n is not None])
    walk(root, [])
    return out


def raw_note_texts():
    """every <syntax> text of every map file, read straight from the XML"""
    import os
    import xml.etree.ElementTree as et
    texts = set()
    for f in mapsrc.all_map_files():
        try:
            root = et.parse(os.path.join(core.REPO, 'pyx12', 'map', f)).getroot()
        except Exception:  # noqa
            continue
        for s in root.iter('syntax'):
            if s.text is not None:
                texts.add(s.text)
    return sorted(texts)


def run(ctx, report):
    rng = random.Random(ctx['seed'])
    mr = core.ModelRunner()
    tier = ctx['tier']
    report.rule = ('every syntax note of the shipped maps (quick: 6 maps; thorough: all) x all 2^n presence patterns of '
                   'its positions (n<=6) x segment lengths {0, max-1, max, max+1,...}; synthetic notes of arity 2..5 over '
                   'positions 1..99; every <syntax> text through _split_syntax.  Distinct = distinct '
                   '(segment text, note) pair.')
    cases = []   # (seg_str, code, idxs, pattern-of-idxs)
    # synthetic notes: all letters, arities, positions incl. two-digit ones
    synth = []
    for code in 'PRECL':
        for idxs in ([1, 2], [2, 1], [3, 4, 5], [1, 3, 5, 7], [2, 4, 6, 8, 10], [9, 10], [10, 11], [1, 99], [98, 99],
                     [1, 1], [5, 5, 6]):
            synth.append((code, idxs))
    for code, idxs in synth:
        for pat, ln in note_cases(code, idxs, rng, tier):
            ln = min(ln, 12) if max(idxs) > 20 else ln
            cases.append((seg_for('TST', idxs, list(pat), ln, rng), code, idxs))
    # degenerate notes (model tie only): arity < 2, unknown letters
    for code, idxs in (('P', [1]), ('R', []), ('X', [1, 2]), ('C', [2]), ('L', [3])):
        cases.append(('TST*A*B*C', code, idxs))
    del NOTES_DIFFER[:]
    notes = collect_notes(tier)
    report.count('map_notes', len(notes))
    report.count('segments-with-notes-read-from-the-file', sum(1 for v in FILE_NOTES.values() if v))
    for (mname, pth, loaded, infile) in NOTES_DIFFER[:20]:
        report.fail('C14:notes-not-kept', 'segment %s: the map file gives the notes %r, the loaded node evaluates %r' % (pth, infile, loaded),
                    {'map': mname, 'path': pth})
    seen = set()
    map_cases = []
    for (mname, node, syn) in notes:
        code, idxs = syn[0], [int(x) for x in syn[1:]]
        key = (node.id, code, tuple(idxs))
        first = key not in seen
        seen.add(key)
        for pat, ln in note_cases(code, idxs, rng, tier):
            s = seg_for(node.id, idxs, list(pat), ln, rng)
            if first:
                cases.append((s, code, idxs))
            map_cases.append((mname, node, s))
    report.count('distinct_note_shapes', len(seen))
    # --- is_syntax_valid: model vs implementation vs the X12 definition
    reqs = [('syntax', [DELIMS, s, code, ','.join(str(i) for i in idxs)]) for (s, code, idxs) in cases]
    import pyx12.segment
    pres_bits = []
    for (s, code, idxs) in cases:
        sg = pyx12.segment.Segment(s, '~', '*', ':')
        bits = ''
        for i in idxs:
            present = len(sg) >= i and i >= 1 and not sg.elements[i - 1].is_empty()
            bits += '1' if present else '0'
        pres_bits.append(bits)
    reqs_spec = [('c14_spec', [code, bits] if bits else [code]) for (s, code, idxs), bits in zip(cases, pres_bits)]
    if ctx['driver_ok']:
        outs = mr.run(reqs + reqs_spec)
        mo, so = outs[:len(cases)], outs[len(cases):]
    else:
        mo = so = [None] * len(cases)
    for k, (s, code, idxs) in enumerate(cases):
        io = implrun.impl_syntax(DELIMS, s, code, idxs)
        report.case((s, code, tuple(idxs)))
        report.count('note:' + code)
        report.count('impl:' + io)
        if mo[k] is not None:
            report.corr_case('syntax', {'segment': s, 'note': [code] + idxs}, mo[k], io)
        wellformed = code in 'PRECL' and len(idxs) >= 2 and all(1 <= i <= 99 for i in idxs)
        if wellformed and so[k] in ('T', 'F'):
            want = 'F' if so[k] == 'T' else 'T'     # valid iff not violated
            if io != want:
                report.fail('C14:%s:arity%d:%s' % (code, len(idxs), 'reported-violated' if io == 'F' else 'missed' if io == 'T' else io),
                            'is_syntax_valid(%r, %r) = %s but the X12 definition on presence %s says %s' % (
                                s, [code] + idxs, io, pres_bits[k], want),
                            {'segment': s, 'note': [code] + idxs}, presence=pres_bits[k])
        if k % 997 == 0:
            report.sample({'segment': s, 'note': [code] + idxs, 'presence': pres_bits[k], 'impl_valid': io})
    # --- _split_syntax on every note text of every map
    texts = raw_note_texts() + ['', 'P', 'P01', 'P0102', 'X0102', 'P010', 'P01 2', 'Pab', 'p0102', 'E0203040506', 'C1', 'L 1 2']
    outs = mr.run([('split_syntax', [t]) for t in texts]) if ctx['driver_ok'] else [None] * len(texts)
    import re
    for t, o in zip(texts, outs):
        io = implrun.impl_split_syntax(t)
        report.case(('split', t))
        if o is not None:
            report.corr_case('split_syntax', {'text': t}, o, io)
        if re.fullmatch(r'[PRECL]([0-9]{2}){2,}', t):
            want = 'S' + t[0] + ',' + ','.join(str(int(t[i:i + 2])) for i in range(1, len(t), 2))
            if io != want:
                report.fail('C14:split:' + t[0], '_split_syntax(%r) = %s, expected %s' % (t, io, want), {'text': t})
    # --- routing: element errors raised by segment validation for violated notes
    import pyx12.error_handler
    rng.shuffle(map_cases)
    limit = 20000 if tier == 'thorough' else 2500
    for (mname, node, s) in map_cases[:limit]:
        sg = pyx12.segment.Segment(s, '~', '*', ':')
        errh = pyx12.error_handler.errh_list()
        try:
            node.is_valid(sg, errh)
        except Exception as e:  # noqa
            report.fail('C14:segment-validation-raises:%s' % type(e).__name__, 'segment_if.is_valid raised',
                        {'map': mname, 'segment': s, 'path': node.get_path()})
            continue
        got = sorted(e[0] for e in errh.err_ele if e[1].startswith('Syntax'))
        want = []
        notes = FILE_NOTES.get((mname, id(node)))
        if notes is None:
            report.count('routing:notes-from-loaded-object')
            notes = node.syntax
        for syn in notes:
            # independent evaluation of the definition
            idxs = [int(x) for x in syn[1:]]
            pres = [len(sg) >= i and not sg.elements[i - 1].is_empty() for i in idxs]
            if violated_py(syn[0], pres):
                want.append('10' if syn[0] == 'E' else '2')
        want.sort()
        report.case(('routing', mname, node.get_path(), s))
        report.count('routing_cases')
        if got != want:
            report.fail('C14:routing:%s' % node.id, 'syntax errors %r, expected %r' % (got, want),
                        {'map': mname, 'segment': s, 'path': node.get_path()})


def violated_py(code, pres):
    n = sum(1 for p in pres if p)
    if code == 'P':
        return n != 0 and n != len(pres)
    if code == 'R':
        return n == 0
    if code == 'E':
        return n > 1
    if code == 'C':
        return pres[0] and not all(pres[1:])
    if code == 'L':
        return pres[0] and not any(pres[1:])
    return False


def replay(rp):
    f = rp.get('failure') or {}
    inp = f.get('input') or {}
    if 'note' in inp:
        n = inp['note']
        print('is_syntax_valid(%r, %r) -> %s; %s' % (inp['segment'], n, implrun.impl_syntax(DELIMS, inp['segment'], n[0], n[1:]), f.get('what')))
        return 1
    print(f.get('what') or rp.get('broken'))
    return 1
