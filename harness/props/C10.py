"""C10 — the tree editing API obeys its read/write/insert/delete/copy laws."""
import io
import logging
import random

import core
import ctxcorr
import ctx_gen
import walk_gen

META = {
    'theorem_files': ['Props/C10.v'],
    'theorems': ['C10_copy_is_fresh', 'C10_copy_looks_the_same', 'C10_delete_in_copy_leaves_original', 'C10_set_value_in_copy_leaves_original', 'C10_queries_agree', 'C10_set_value_frame', 'C10_set_then_get', 'C10_add_segment_placement', 'C10_add_segment_heap', 'C10_insert_by_pos_sorted', 'C10_add_segment_once', 'C10_delete_laws'],
    'trusted_base': [
        'Coq 8.16.1 kernel; no native_compute',
        'Model/Context.v (+ CtxReader, Segment, Path): hand transcription of the X12DataNode API of x12context.py — tied by this run '
        '(random scripts of API calls on trees from generated documents: model text vs implementation text)',
        'extraction (ExtrOcamlBasic only) + ocaml/driver.ml',
    ],
    'assumptions': [],
}


def trees_of(text, loop_id):
    import pyx12.error_handler
    import pyx12.params
    import pyx12.x12context
    out = []
    try:
        src = pyx12.x12context.X12ContextReader(pyx12.params.params(), pyx12.error_handler.errh_null(), io.StringIO(text))
        for node in src.iter_segments(loop_id):
            if node.type == 'loop':
                out.append(node)
    except Exception:  # noqa
        pass
    return out


def dump(t):
    return [d['segment'].format() for d in t.iterate_segments()]


def first_instances(t):
    """[(loop id chain, segment node or None, node)] reachable through FIRST instances only (what a path addresses)"""
    out = []

    def walk(x, loops, depth):
        seen = set()
        for c in ctx_gen.live_children(x):
            if c.type == 'seg':
                key = ('S', c.seg_data.get_seg_id())
                if key in seen:
                    continue
                seen.add(key)
                out.append((loops, c, c))
            else:
                key = ('L', c.id)
                if key in seen:
                    continue
                seen.add(key)
                out.append((loops + [c.id], None, c))
                if depth < 10:
                    walk(c, loops + [c.id], depth + 1)
    walk(t, [], 0)
    return out


def ele_paths(t, rng, k):
    """[(path string, seg node, ele index, sub index or None)] for existing elements addressed by their path"""
    out = []
    for loops, sg, _t in first_instances(t):
        if sg is None:
            continue
        sid = sg.seg_data.get_seg_id()
        for i in range(1, len(sg.seg_data) + 1):
            comp = sg.seg_data.get('%02i' % i)
            if comp is None:
                continue
            if len(comp) > 1:
                for j in range(1, len(comp) + 1):
                    out.append(('/'.join(loops + ['%s%02i-%i' % (sid, i, j)]), sg, i, j))
            else:
                out.append(('/'.join(loops + ['%s%02i' % (sid, i)]), sg, i, None))
    rng.shuffle(out)
    return out[:k]


def unique_loop_path(t, loops):
    """the path addresses the first instance at every level: is this node THE first-instance chain?"""
    return True


def run(ctx, report):
    rng = random.Random(ctx['seed'])
    logging.disable(logging.CRITICAL)
    thorough = ctx['tier'] == 'thorough'
    report.rule = ('(a) model vs implementation: random scripts (4-40 calls of get/set/exists/count/select/first/add_segment/add_loop/'
                   'add_node/delete_segment/delete_node/copy/iterate with valid and invalid paths) on trees from generated documents; '
                   '(b) laws checked on the implementation, on loop trees from generated documents: set then get returns the value '
                   'and no other element changes; exists / count / first / select agree; delete_node removes exactly one node; '
                   'a copy and its original do not influence each other (values, deletes, relative paths).  Distinct = (text, loop, op).')
    ctxcorr.apis(report, ctx, rng, 300 if thorough else 70, thorough)
    names = walk_gen.DOC_MAPS if thorough else walk_gen.QUICK_MAPS
    for k in range(60 if thorough else 14):
        name = rng.choice(names)
        segs, d = walk_gen.map_document(rng, name, ('~', '*', ':'), n_st=rng.choice([1, 2]), p_seg=0.3, p_loop=0.4, max_segs=50)
        text = walk_gen.encode_document(rng, segs, d)
        lkind, lid = ctx_gen.pick_loop_id(rng, text)
        for t in trees_of(text, lid)[:3]:
            inp = {'what': name, 'loop_id': lid, 'text': text[:3000]}
            try:
                laws(report, rng, t, inp)
            except Exception as e:  # noqa
                report.fail('C10:oracle-raised:%s' % type(e).__name__, 'an API call on a valid path raised %s: %s' % (type(e).__name__, str(e)[:100]), inp)
    # deep paths over REPEATED intermediate loops: trees of dense documents in which every loop occurs twice; count / select of
    # 'L1/L2/SEG' must see the matches under every repeat of L1 (an independent walk over the live children decides)
    import confgen
    import docgen
    for name in (['837.4010.X098.A1.xml', '837.5010.X222.A1.xml', '835.4010.X091.A1.xml', '834.5010.X220.A1.xml'] * (3 if thorough else 1)):
        try:
            segs, d, _sel = confgen.document(rng, name, ('~', '*', ':'), n_st=1, p_seg=0.2, p_loop=0.7, max_segs=200, loop_twice=True)
        except Exception:  # noqa
            continue
        text = docgen.encode(segs, d, '')
        for lid in ('ST_LOOP', 'DETAIL', '2000A', '2000B', '2000', '2300'):
            for t in trees_of(text, lid)[:2]:
                inp = {'what': 'twice:' + name, 'loop_id': lid, 'text': text[:3000]}
                try:
                    qualified_query_law(report, rng, t, inp)
                    deep_query_law(report, rng, t, inp)
                except Exception as e:  # noqa
                    report.fail('C10:oracle-raised:%s' % type(e).__name__, 'a query on a valid deep path raised %s: %s' % (type(e).__name__, str(e)[:100]), inp)
    logging.disable(logging.NOTSET)


def all_matches(t, loops, sid):
    """independent evaluation of the path loops.../sid (no qualifier): every live node reached through EVERY repeat"""
    level = [t]
    for lp in loops:
        level = [c for x in level for c in ctx_gen.live_children(x) if c.type == 'loop' and c.id == lp]
    if sid is None:
        return level
    return [c for x in level for c in ctx_gen.live_children(x) if c.type == 'seg' and c.seg_data.get_seg_id() == sid]


def all_paths(t):
    """every (loop id chain, segment id or None) that addresses some live node below t, through ANY repeat"""
    out = []

    def walk(x, loops, depth):
        for c in ctx_gen.live_children(x):
            if c.type == 'seg':
                k = (tuple(loops), c.seg_data.get_seg_id())
                if k not in out:
                    out.append(k)
            else:
                k = (tuple(loops + [c.id]), None)
                if k not in out:
                    out.append(k)
                if depth < 10:
                    walk(c, loops + [c.id], depth + 1)
    walk(t, [], 0)
    return [(list(a), b) for (a, b) in out]


def deep_query_law(report, rng, t, inp):
    cands = []
    for loops, sid in all_paths(t):
        if len(loops) >= 2 or (len(loops) >= 1 and sid is not None):
            cands.append((loops, sid))
    rng.shuffle(cands)
    # take a segment away from the FIRST repeat of a repeated loop, so that only later repeats hold it
    for loops, sid in cands:
        if sid is None or not loops:
            continue
        reps = all_matches(t, loops, None)
        if len(reps) >= 2:
            holders = [c for c in ctx_gen.live_children(reps[0]) if c.type == 'seg' and c.seg_data.get_seg_id() == sid]
            first_child = ctx_gen.live_children(reps[0])[:1]
            later = [c for r_ in reps[1:] for c in ctx_gen.live_children(r_) if c.type == 'seg' and c.seg_data.get_seg_id() == sid]
            if holders and later and holders[0] is not (first_child[0] if first_child else None):
                for hnode in holders:
                    if hnode is not first_child[0]:
                        hnode.delete()
                report.count('law:deep-path:first-repeat-emptied')
                break
    for loops, sid in cands[:12]:
        p = '/'.join(loops + ([sid] if sid else []))
        want = all_matches(t, loops, sid)
        report.case(('deepquery', inp['text'], inp['loop_id'], p))
        report.count('law:deep-path-count')
        if len(want) > 1:
            report.count('law:deep-path-count:several-matches')
        got = list(t.select(p))
        c = t.count(p)
        if c != len(want) or len(got) != len(want) or any(a is not b for a, b in zip(got, want)):
            report.fail('C10:deep-path-misses-repeats', 'path %r: count %d, select %d nodes; the tree holds %d matching nodes' % (p, c, len(got), len(want)),
                        dict(inp, path=p))
        # ... reading through the same path finds the segment that first() finds (get_value descends into the FIRST repeat of
        # every intermediate loop only)
        if sid is not None and want:
            try:
                v_ = t.get_value(p + '01')
            except Exception as ex:  # noqa
                v_ = 'raised ' + type(ex).__name__
            w_ = want[0].seg_data.get_value('01')
            cur_ = t
            for lp_ in loops:                        # the FIRST repeat at every level
                nxt_ = [c_ for c_ in ctx_gen.live_children(cur_) if c_.type == 'loop' and c_.id == lp_]
                cur_ = nxt_[0] if nxt_ else None
                if cur_ is None:
                    break
            first_rep_holds = cur_ is not None and any(c_.type == 'seg' and c_.seg_data.get_seg_id() == sid for c_ in ctx_gen.live_children(cur_))
            if v_ != w_:
                report.fail('C10:deep-path-get-misses-later-repeats' if not first_rep_holds else 'C10:deep-path-get',
                            'path %r exists (first() returns a segment whose element 01 is %r) but get_value(%r) gives %r' % (p, w_, p + '01', v_),
                            dict(inp, path=p))
        # ... and exists / first answer the same question (also when the first repeat of a loop does not hold the segment)
        e, f = t.exists(p), t.first(p)
        if e != (len(want) > 0) or (f is None) != (len(want) == 0) or (f is not None and f is not want[0]):
            report.fail('C10:deep-path-exists-first', 'path %r: exists %r, first %s; the tree holds %d matching nodes' % (
                p, e, 'None' if f is None else 'a node', len(want)), dict(inp, path=p))


def qualified_query_law(report, rng, t, inp):
    """paths SEG[qual]: exactly the segments whose own qualifier (element 01, or its first component) IS qual"""
    def qual_of(c):
        mn = c.x12_map_node
        try:
            first = mn.children[0]
            if first.is_composite():
                k = first.children[0]
                if k.get_data_type() != 'ID' or not k.valid_codes or mn.id in ('ENT', 'HL'):
                    return None
                return ('C', c.seg_data.get_value('01-1'), [x for x in k.valid_codes if x])
            # the path scheme defines a qualifier for a required coded ID in element 01 (or its first component); ENT / HL have their own rule
            if first.get_data_type() != 'ID' or not first.valid_codes or first.usage != 'R' or mn.id in ('ENT', 'HL'):
                return None
            return ('S', c.seg_data.get_value('01'), [x for x in first.valid_codes if x])
        except Exception:  # noqa
            return None
    cands = []
    for loops, sid in all_paths(t):
        if sid is None:
            continue
        nodes = all_matches(t, loops, sid)
        qs = [(n_, qual_of(n_)) for n_ in nodes]
        if not qs or any(q is None or not q[1] for _n, q in qs):
            continue
        cands.append((loops, sid, qs))
    rng.shuffle(cands)
    cands.sort(key=lambda c_: 0 if (c_[2][0][1][0] == 'C' and len(set(q[1] for _n, q in c_[2])) > 1) else (1 if c_[2][0][1][0] == 'C' else 2))
    for loops, sid, qs in cands[:8]:
        present = sorted(set(q[1] for _n, q in qs))
        allowed = sorted(set(x for _n, q in qs for x in q[2]))
        absent = [x for x in allowed if x not in present]
        for qual in present[:3] + absent[:2]:
            p = '/'.join(loops + ['%s[%s]' % (sid, qual)])
            want = [n_ for n_, q in qs if q[1] == qual]
            report.case(('qualquery', inp['text'], inp['loop_id'], p))
            report.count('law:qualified-path:%s' % ('composite' if qs[0][1][0] == 'C' else 'simple'))
            if len(present) > 1:
                report.count('law:qualified-path:several-qualifiers-present')
            try:
                got = list(t.select(p))
                c, e, f = t.count(p), t.exists(p), t.first(p)
            except Exception as ex:  # noqa
                report.fail('C10:oracle-raised:%s' % type(ex).__name__, 'a query with the qualified path %r raised %s' % (p, type(ex).__name__), dict(inp, path=p))
                continue
            if c != len(want) or len(got) != len(want) or any(a is not b for a, b in zip(got, want)) or e != bool(want) or (f is None) != (not want) \
                    or (f is not None and f is not want[0]):
                report.fail('C10:qualified-path:%s' % ('composite' if qs[0][1][0] == 'C' else 'simple'),
                            'path %r: count %d, select %d, exists %r, first %s; %d segments carry that qualifier (qualifiers present: %r)' % (
                                p, c, len(got), e, 'None' if f is None else 'a node', len(want), present), dict(inp, path=p))


def laws(report, rng, t, inp):
    base = dump(t)
    # L1 set/get
    for (p, sg, i, j) in ele_paths(t, rng, 6):
        report.case(('set', inp['text'], inp['loop_id'], p))
        report.count('law:set-get')
        v = rng.choice(['NEW1', 'A', '12.5', 'x y'])
        before = dump(t)
        old = t.get_value(p)
        t.set_value(p, v)
        got = t.get_value(p)
        after = dump(t)
        if got != v:
            report.fail('C10:set-get', 'set_value(%r, %r) then get_value gives %r' % (p, v, got), dict(inp, path=p))
        changed = [k for k, (a, b) in enumerate(zip(before, after)) if a != b]
        if len(before) != len(after) or len(changed) > 1:
            report.fail('C10:set-changes-others', 'set_value(%r) changed %d segments' % (p, len(changed)), dict(inp, path=p))
        elif changed:
            # the one changed segment differs only in that element
            a, b = before[changed[0]][:-1].split('*'), after[changed[0]][:-1].split('*')
            n = max(len(a), len(b))
            a += [''] * (n - len(a))
            b += [''] * (n - len(b))
            diff = [x for x in range(n) if a[x] != b[x]]
            if diff != [i]:
                report.fail('C10:set-changes-other-element', 'set_value(%r) changed elements %r of the segment' % (p, diff), dict(inp, path=p))
        if old is not None:
            t.set_value(p, old)
    # L1b a set far past the end of a segment creates blank elements on the way; a later write into one of them changes that one only
    import copy as _copy
    cands = [(loops, sg) for loops, sg, _t in first_instances(t) if sg is not None and len(sg.seg_data) + 4 <= 99]
    rng.shuffle(cands)
    for loops, sg in cands[:2]:
        c = _copy.copy(t)
        sid = sg.seg_data.get_seg_id()
        n = len(sg.seg_data)
        far = n + rng.choice([3, 4, 5])
        slot = rng.randint(n + 1, far - 1)
        sub = rng.choice([1, 2, 3])
        p_far = '/'.join(loops + ['%s%02i' % (sid, far)])
        p_slot = '/'.join(loops + ['%s%02i-%i' % (sid, slot, sub)])
        report.case(('pad-set', inp['text'], inp['loop_id'], p_far, p_slot))
        report.count('law:set-in-padding')
        try:
            c.set_value(p_far, 'FAR')
            before = dump(c)
            c.set_value(p_slot, 'Q')
            after = dump(c)
            got = c.get_value(p_slot)
        except Exception as ex:  # noqa
            report.fail('C10:oracle-raised:%s' % type(ex).__name__, 'set_value past the end of a segment raised %s' % type(ex).__name__, dict(inp, path=p_slot))
            continue
        if got != 'Q':
            report.fail('C10:set-get:padding', 'set_value(%r, %r) then get_value gives %r' % (p_slot, 'Q', got), dict(inp, path=p_slot, first_set=p_far))
        changed = [k for k, (a, b) in enumerate(zip(before, after)) if a != b]
        if len(before) != len(after) or len(changed) != 1:
            report.fail('C10:set-changes-others:padding', 'set_value(%r) changed %d segments' % (p_slot, len(changed)), dict(inp, path=p_slot, first_set=p_far))
        else:
            a, b = before[changed[0]][:-1].split('*'), after[changed[0]][:-1].split('*')
            m = max(len(a), len(b))
            a += [''] * (m - len(a))
            b += [''] * (m - len(b))
            diff = [x for x in range(m) if a[x] != b[x]]
            if diff != [slot]:
                report.fail('C10:set-changes-other-element:padding', 'after set_value(%r), set_value(%r) changed elements %r of the segment' % (
                    p_far, p_slot, diff), dict(inp, path=p_slot, first_set=p_far))
    # L2 exists / count / first / select agree
    paths = []
    for loops, sg, target in first_instances(t)[:60]:
        if sg is None:
            paths.append('/'.join(loops))
        else:
            paths.append('/'.join(loops + [sg.seg_data.get_seg_id()]))
    paths += ['ZZZ', '9999', '2300/ZZZ']
    for p in rng.sample(paths, min(len(paths), 10)):
        report.case(('query', inp['text'], inp['loop_id'], p))
        report.count('law:queries-agree')
        e, c, f, s = t.exists(p), t.count(p), t.first(p), list(t.select(p))
        if not (e == (c > 0) == (f is not None) == (len(s) > 0)) or c != len(s):
            report.fail('C10:queries-disagree', 'path %r: exists %r, count %r, first %s, select %d' % (p, e, c, 'None' if f is None else 'node', len(s)),
                        dict(inp, path=p))
        elif f is not None and s and f is not s[0]:
            report.fail('C10:first-is-not-select0', 'first(%r) is not the first node of select' % p, dict(inp, path=p))
    # L2b the same on a segment node of the tree, with a relative path to a sibling segment
    segnodes = [sg for loops, sg, _t in first_instances(t) if sg is not None and sg is not None and len(loops) >= 1]
    if segnodes:
        sn = rng.choice(segnodes)
        sib = sn.seg_data.get_seg_id()
        p = '../' + sib
        report.case(('segquery', inp['text'], inp['loop_id'], p))
        report.count('law:queries-agree-on-segment-node')
        try:
            e, c, f, sl = sn.exists(p), sn.count(p), sn.first(p), list(sn.select(p))
            if not (e == (c > 0) == (f is not None) == (len(sl) > 0)):
                report.fail('C10:queries-disagree:segment-node', 'on a segment node, path %r: exists %r, count %r, first %s, select %d' % (
                    p, e, c, 'None' if f is None else 'node', len(sl)), dict(inp, path=p))
        except Exception as ex:  # noqa
            report.fail('C10:relative-path-on-segment-node:%s' % type(ex).__name__, 'on a segment node, a query with path %r raised %s' % (p, type(ex).__name__), dict(inp, path=p))
        try:
            v = sn.get_value('../%s01' % sib)
            w = sn.seg_data.get_value('01')
            first_sib = [x for x in ctx_gen.live_children(sn.parent) if x.type == 'seg' and x.seg_data.get_seg_id() == sib][0] if hasattr(sn.parent, 'children') else None
            if first_sib is not None and v != first_sib.seg_data.get_value('01'):
                report.fail('C10:relative-get:segment-node', "get_value('../%s01') on a segment node gives %r" % (sib, v), dict(inp, path=p))
        except Exception as ex:  # noqa
            report.fail('C10:relative-path-on-segment-node:%s' % type(ex).__name__, "get_value('../%s01') on a segment node raised %s" % (sib, type(ex).__name__), dict(inp, path=p))
    # L4 add_segment keeps map order: re-adding a copy of an existing segment puts it next to its siblings of that position
    # only segments the MAP places directly in this loop can be added to it (in an ISA_LOOP tree GS / GE hang under the root although
    # the map puts them in GS_LOOP: recorded under C09; add_segment rightly refuses them with X12PathError)
    def own(c):
        return getattr(getattr(c.x12_map_node, 'parent', None), 'id', None) == t.id
    segs_top = [c for c in ctx_gen.live_children(t) if c.type == 'seg' and own(c)]
    if segs_top:
        sn = rng.choice(segs_top)
        report.count('law:add-in-map-order')
        before_ids = [c.id if c.type is not None else None for c in ctx_gen.live_children(t)]
        newn = t.add_segment(sn.seg_data.format())
        after_nodes = ctx_gen.live_children(t)
        if newn is None or newn not in after_nodes:
            report.fail('C10:add-not-placed', 'add_segment(%r) did not put the node under the loop' % sn.seg_data.format()[:40], inp)
        else:
            pos = [getattr(c.x12_map_node, 'pos', None) for c in after_nodes]
            k = after_nodes.index(newn)
            mypos = pos[k]
            if any(q is not None and q > mypos for q in pos[:k]) or any(q is not None and q <= mypos for q in pos[k + 1:]):
                report.fail('C10:add-out-of-order', 'add_segment placed a node of position %r at index %d among positions %r' % (mypos, k, pos), inp)
            t.delete_segment(newn.seg_data) if False else None
    # L5 copy independence
    base = dump(t)
    c = t.copy()
    report.count('law:copy')
    if dump(c) != dump(t):
        report.fail('C10:copy-differs', 'a fresh copy serialises differently', inp)
    # whole elements and — where the tree has composites — single components (written in place inside the element object)
    eps = ele_paths(c, rng, 3) + [x for x in ele_paths(c, rng, 500) if x[3] is not None][:3]
    report.count('law:copy:component-writes', sum(1 for x in eps if x[3] is not None))
    for (p, sg, i, j) in eps:
        c.set_value(p, 'CPY')
    if dump(t) != base:
        report.fail('C10:copy-shares-data', 'editing a copy changed the original', inp)
    # relative paths evaluated on nodes of the copy stay inside the copy
    loops_c = [x for x in ctx_gen.enumerate_paths(c) if x[1] is None]
    if loops_c:
        sub = loops_c[0][2]
        up = getattr(sub, 'parent', None)
        if up is not None and up is not c and any(up is x[2] for x in ctx_gen.enumerate_paths(t)) or up is t:
            report.fail('C10:copy-parent-in-original', 'a node of the copy has its parent in the original tree', inp)
    # L3 delete_node removes exactly one node
    cands = [('/'.join(loops), target) for loops, sg, target in first_instances(t) if sg is None]
    if cands:
        p, target = rng.choice(cands)
        report.case(('delete', inp['text'], inp['loop_id'], p))
        report.count('law:delete')
        n0 = t.count(p)
        segs_removed = len(dump(t.first(p))) if t.first(p) is not None else 0
        before = dump(t)
        ok = t.delete_node(p)
        after = dump(t)
        if n0 > 0:
            if not ok or t.count(p) != n0 - 1:
                report.fail('C10:delete-count', 'delete_node(%r): count %d -> %d (returned %r)' % (p, n0, t.count(p), ok), dict(inp, path=p))
            if len(before) - len(after) != segs_removed:
                report.fail('C10:delete-removes-other', 'delete_node(%r) removed %d segments, the node held %d' % (p, len(before) - len(after), segs_removed),
                            dict(inp, path=p))
    # L4b the same placement law after a delete (the deleted node may still be in the children list)
    loops_top = [x for x in ctx_gen.live_children(t) if x.type == 'loop']
    segs_top = [x for x in ctx_gen.live_children(t) if x.type == 'seg' and own(x)]
    if len(segs_top) >= 2:
        victim = segs_top[0] if len(segs_top) > 2 else None
        later = segs_top[-1]
        if victim is not None and victim is not later:
            report.count('law:add-after-delete')
            victim.delete()
            newn = t.add_segment(later.seg_data.format())
            live = ctx_gen.live_children(t)
            if newn in live:
                pos = [getattr(x.x12_map_node, 'pos', None) for x in live]
                k = live.index(newn)
                if any(q is not None and q > pos[k] for q in pos[:k]) or any(q is not None and q <= pos[k] for q in pos[k + 1:]):
                    report.fail('C10:add-out-of-order:after-delete', 'after a delete, add_segment placed a node of position %r at index %d among positions %r' % (pos[k], k, pos), inp)
            else:
                report.fail('C10:add-not-placed:after-delete', 'after a delete, add_segment did not put the node under the loop', inp)
    # L4c re-adding the FIRST segment after every sibling of its position was deleted: it must come first again
    live = ctx_gen.live_children(t)
    if len(live) >= 2 and live[0].type == 'seg' and own(live[0]):
        p0 = getattr(live[0].x12_map_node, 'pos', None)
        lows = [x for x in live if getattr(x.x12_map_node, 'pos', None) is not None and x.x12_map_node.pos <= p0]
        if p0 is not None and len(lows) < len(live) and all(x.type == 'seg' for x in lows):
            report.count('law:add-first-after-delete')
            text0 = live[0].seg_data.format()
            terms0 = (live[0].seg_data.seg_term, live[0].seg_data.ele_term, live[0].seg_data.subele_term)
            for x in lows:
                x.delete()
            import pyx12.segment
            newn = t.add_segment(pyx12.segment.Segment(text0, *terms0))
            live2 = ctx_gen.live_children(t)
            if newn not in live2:
                report.fail('C10:add-not-placed:first', 'after deleting the leading segments, add_segment did not put the node under the loop', inp)
            elif live2.index(newn) != 0:
                report.fail('C10:add-out-of-order:first', 'a segment of the lowest position (%r) was placed at index %d among positions %r' % (
                    p0, live2.index(newn), [getattr(x.x12_map_node, 'pos', None) for x in live2]), inp)


def replay(rp):
    f = rp.get('failure') or {}
    print(f.get('what'))
    return 1
