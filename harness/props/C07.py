"""C07 — validation is total: any input yields a verdict or a documented refusal."""
import io
import logging
import random

import core
import docgen
import pipecorr
import pipe_impl

META = {
    'theorem_files': ['Props/C07.v'],
    'theorems': ['C07_reader_steps_total', 'C07_walker_total', 'C07_validation_total', 'C07_driver_total', 'C07_shipped_environment_ok', 'C07_shipped_total', 'C07_letter_terminator_raises', 'C07_pipeline_off_is_driver', 'C07_pipeline_total', 'C07_shipped_sinks_ok', 'C07_context_reader_total', 'C07_shipped_context_reader_total', 'C07_context_reader_wrapper_loop_raises'],
    'trusted_base': [
        'Coq 8.16.1 kernel; no native_compute',
        'Model/Pipeline.v (+ Driver, Walker, Element, Errh, Html, XmlOut, Ack997/999, Reader, Raw): hand transcription of '
        'x12n_document and everything it calls — tied by this run: whole documents under every sink subset, model text vs '
        'implementation text',
        'extraction (ExtrOcamlBasic only) + ocaml/driver.ml',
    ],
    'assumptions': ['theorem: sinks off; header terminator / element separator not among the letters I S A (recorded finding otherwise); '
                    'maps 277.5010.X212, 820.4010.X061.A1, 830.4010.PS, 841.4010.XXXC are outside the proved environment'],
}

ALLOWED = ('X12Error', 'EngineError')


def allowed(info):
    """documented refusals: X12Error (not an interchange / malformed ISA), EngineError 'Map not found'"""
    if not info['exn']:
        return True
    name, _, msg = info['exn'].partition(': ')
    if name == 'X12Error':
        return True
    if name == 'EngineError' and msg.startswith('Map not found'):
        return True
    return False


def arbitrary_texts(rng, n):
    out = [('arbitrary', 'letter-terminator',
            'ISA*00*          *00*          *ZZ*SENDER         *ZZ*RECEIVER       *030101*1253*U*00401*000000001*0*P*:SIEA*1*000000001S')]
    alph = 'ISA*~:GSTE01 \n\r|^>AB<&'
    I = docgen.isa('000000001', ('~', '*', ':'))
    for k in range(n):
        r = rng.random()
        if r < 0.3:
            t = ''.join(rng.choice(alph) for _ in range(rng.choice([0, 1, 3, 50, 105, 106, 107, 300])))
        elif r < 0.6:
            t = I + '~' + ''.join(rng.choice(alph) for _ in range(rng.randint(0, 200)))
        elif r < 0.8:
            t = I + '~' + '~'.join(rng.choice(['GS*HC*S*R*20030828*1128*17*X*004010X098A1', 'ST*837*0001', 'SE*2*0001', 'GE*1*17',
                                               'IEA*1*000000001', 'TA1*1*2*3*A*000', 'HL*1**20*1', 'BHT*0019*00*1*20030828*1128*CH',
                                               I, 'GS', 'ST', 'ZZ*' + 'x*' * rng.randint(0, 130), ' ', '', 'LX*1', 'CLM*1*1***11:B:1:2:3:4*Y']) for _ in range(rng.randint(0, 9))) + '~'
        else:
            t = (I + '~')[:rng.randint(0, 107)] * rng.randint(1, 3)
        out.append(('arbitrary', 'arbitrary', t))
    return out


ENV_LINES = {
    'I': None,      # the ISA of the document (filled in by envelope_soups)
    'G': 'GS*HC*S*R*20030828*1128*17*X*004010X098A1', 'g': 'GS*HC*S*R*20030828*1128*18*X*004010X098A1',
    'S': 'ST*837*0001', 'E': 'SE*2*0001', 'e': 'SE*2*0002', 'F': 'GE*1*17', 'f': 'GE*1*18',
    'Z': 'IEA*1*000000001', 'z': 'IEA*1*000000002',
}


def envelope_soups(rng, exhaustive_len, n_random):
    """every sequence of envelope lines (ISA GS ST SE GE IEA, matching ids) up to exhaustive_len after the header, plus random
    longer ones with mismatching ids: all states of the reader's loop stack, incl. trailers that find a foreign or empty stack"""
    import itertools
    I = docgen.isa('000000001', ('~', '*', ':'))
    out = []
    for n in range(0, exhaustive_len + 1):
        for seq in itertools.product('IGSEFZ', repeat=n):
            out.append(('soup', 'soup:' + ''.join(seq), I + '~' + ''.join((I if c == 'I' else ENV_LINES[c]) + '~' for c in seq)))
    keys = 'IGgSEeFfZz'
    for _ in range(n_random):
        seq = [rng.choice(keys) for _ in range(rng.randint(5, 10))]
        out.append(('soup', 'soup:' + ''.join(seq), I + '~' + ''.join((I if c == 'I' else ENV_LINES[c]) + '~' for c in seq)))
    return out


def layout_texts(rng, cases, n):
    """documents re-laid-out with line breaks after the terminators and, here and there, a terminator alone on its line, runs of
    line breaks, a line break before a terminator: segments that consist of line-break characters only"""
    out = []
    pool = [c for c in cases if c[2].startswith('ISA') and len(c[2]) > 106 and c[2][105] not in '\r\n']
    for _ in range(n):
        if not pool:
            break
        kind, what, text = rng.choice(pool)
        t = text[105]
        brk = rng.choice(['\n', '\r\n', '\r'])
        pieces = text.split(t)
        res = []
        for i, pc in enumerate(pieces[:-1]):
            res.append(pc + t + brk)
            r = rng.random()
            if r < 0.08:
                res.append(t + brk)                      # a terminator alone on its line
            elif r < 0.12:
                res.append(brk + t + brk)                # a blank line closed by a terminator
            elif r < 0.15:
                res.append(brk * 2)                      # blank lines
            elif r < 0.17:
                res.append(' ' + brk + t)                # a blank, a break, a terminator
        res.append(pieces[-1])
        out.append(('layout', 'layout:' + what, ''.join(res)))
    return out


def reading(text, loops=(None, '2000A', 'ST_LOOP', 'DETAIL', '2300', 'GS_LOOP', 'TABLE2AREA3')):
    """plain reading and context-reader iteration: -> [exception names that escaped]"""
    import pyx12.error_handler
    import pyx12.params
    import pyx12.x12context
    import pyx12.x12file
    bad = []
    try:
        src = pyx12.x12file.X12Reader(io.StringIO(text))
        for _ in src:
            pass
        src.cleanup()
    except Exception as e:  # noqa
        if type(e).__name__ != 'X12Error':
            bad.append(('reader', type(e).__name__, str(e)[:80]))
    for loop_id in loops:
        try:
            src = pyx12.x12context.X12ContextReader(pyx12.params.params(), pyx12.error_handler.errh_null(), io.StringIO(text))
            for node in src.iter_segments(loop_id):
                pass
        except Exception as e:  # noqa
            n, m = type(e).__name__, str(e)
            if n == 'X12Error' or (n == 'EngineError' and m.startswith('Map not found')):
                continue
            bad.append(('context:%s' % loop_id, n, m[:80]))
    return bad


def run(ctx, report):
    rng = random.Random(ctx['seed'])
    logging.disable(logging.CRITICAL)
    thorough = ctx['tier'] == 'thorough'
    report.rule = ('generated documents of the shipped maps (valid, body/envelope mutations incl. delete/duplicate/reorder/truncate/'
                   'retag/orphan trailers/non-numeric counts, several interchanges, no group, over-long segments, special characters, '
                   'unplaceable segments, corpus documents) and arbitrary strings / random envelope soups, each under 2-8 of the 8 '
                   'sink subsets and both charsets: (a) whole-document model vs implementation; (b) oracle on the implementation: '
                   'x12n_document returns a bool or raises X12Error / EngineError("Map not found..."), nothing else; plain reading '
                   'raises X12Error only; context-reader iteration likewise.  Distinct = distinct (text, mask, charset).')
    seen = {}

    def oracle(kind, what, mask, text, setting, info):
        if not allowed(info):
            name = info['exn'].split(':')[0]
            where = info['where'].split(' in ')[-1] if info['where'] else '?'
            report.fail('C07:escapes:%s:%s:sinks=%s' % (name, where, mask if mask != '---' else 'none'),
                        'x12n_document raised %s (%s)' % (info['exn'], info['where']),
                        {'text': text[:3000], 'mask': mask, 'charset': setting[0], 'what': what})
    cases = pipecorr.documents(rng, 400 if thorough else 70, thorough)
    cases += arbitrary_texts(rng, 300 if thorough else 60)
    cases += layout_texts(rng, cases, 120 if thorough else 30)
    pipecorr.run(report, ctx, rng, cases, 3 if thorough else 2, oracle)
    # envelope soups: plain reading and context iteration on all of them, the whole pipeline on a sample
    soups = envelope_soups(rng, 5 if thorough else 4, 600 if thorough else 100)
    report.count('envelope-soups', len(soups))
    pipecorr.run(report, ctx, rng, rng.sample(soups, 300 if thorough else 60), 2, oracle)
    for (kind, what, text) in soups:
        report.case(('soup-read', text))
        for (which, name, msg) in reading(text, loops=(None,)):
            report.count('reading-raises')
            report.fail('C07:%s-escapes:%s%s' % (which.split(':')[0], name, (':' + which.split(':')[1]) if ':' in which else ''),
                        '%s raised %s: %s' % (which, name, msg), {'text': text[:3000], 'what': what})
    # reading and context iteration
    for (kind, what, text) in cases[:(400 if thorough else 90)] + [c for c in cases if c[0] == 'layout']:
        for (which, name, msg) in reading(text):
            report.count('reading-raises')
            report.fail('C07:%s-escapes:%s%s' % (which.split(':')[0], name, (':' + which.split(':')[1]) if ':' in which else ''),
                        '%s raised %s: %s' % (which, name, msg), {'text': text[:3000], 'what': what})
    logging.disable(logging.NOTSET)


def replay(rp):
    f = rp.get('failure') or {}
    print(f.get('what'))
    return 1
