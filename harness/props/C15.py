"""C15 — element/composite validation enforces exactly what the map declares."""
import random

import core
import mapser
import mapsrc

META = {
    'theorem_files': ['Props/C15.v'],
    'theorems': ['C15_total', 'C15_exact', 'C15_sound', 'C15_control_char_preempts', 'C15_bool_iff_error'],
    'trusted_base': [
        'Coq 8.16.1 kernel; no native_compute',
        'Model/Element.v: hand transcription of element_if.is_valid/_is_valid_code, composite_if.is_valid, segment_if.is_valid '
        '(incl. error message texts); Model/MapLoad.v loader; regenerated regexes and control-character tables',
        'the C13 theorems (IsValidDataType decides the value languages) which the type clause rests on',
        'XmlSer glue + extraction (ExtrOcamlBasic only) + ocaml/driver.ml',
        'Spec/C15_spec.v: the independent clauses are my reading of the property',
    ],
    'assumptions': ['definitions are well formed (data element defined, usage R/S/N, external set defined or excluded): '
                    'C16 establishes this for the shipped maps, with the recorded exceptions'],
}

CTL = '\x07'


def value_catalogue(rng, e, de):
    """values spanning every constraint boundary of the element definition"""
    ty, mn, mx = de['data_type'], de['min_len'], de['max_len']
    vals = [None, '']
    base = {'AN': 'A', 'ID': 'A', 'R': '1', 'DT': '2', 'D8': '2', 'D6': '0', 'TM': '1', 'RD8': '2', 'B': 'x'}.get(ty, '1' if ty and ty[0] == 'N' else 'A')
    for n in sorted(set([max(mn - 1, 1), mn, mn + 1, mx - 1, mx, mx + 1, min(mx + 7, 300)])):
        if n >= 1:
            vals.append(base * n)
    vals += ['20040229', '20030229', '040229', '1200', '2400', '120060', '20040101-20040131', '20040101-2004013',
             '-12.5', '12.', '.5', '-', '1-2', 'ab c', 'A B ', 'A ', ' ', 'A' + CTL, CTL, 'A\n', 'a~b', 'ABC', 'abc', '^', '123456789', '12345678']
    codes = [c for c in e.valid_codes if c is not None]
    for c in codes[:40]:
        vals.append(c)
    if codes:
        vals.append(codes[0] + ' ')
        vals.append(codes[0].lower())
        vals.append(codes[0] + CTL)
    if e.external_codes:
        ext = e.root.ext_codes.codes.get(e.external_codes)
        if ext:
            vals += ext['codes'][:3] + [ext['codes'][-1]]
        vals += ['ZZ', 'ZZZZZ']
    out = []
    for v in vals:
        if v not in out:
            out.append(v)
    return out


def codes_of(out):
    if out.startswith('!'):
        return out
    return sorted(set(p.split(',')[1] for p in out.split('|')[1:] if p.startswith('E,')))


_code_sets = []


def all_code_sets():
    """names of the external code sets of codes.xml"""
    if not _code_sets:
        import pyx12.codes
        _code_sets.extend(sorted(pyx12.codes.ExternalCodes(None, None).codes.keys()))
    return _code_sets


def run(ctx, report):
    rng = random.Random(ctx['seed'])
    mr = core.ModelRunner()
    thorough = ctx['tier'] == 'thorough'
    names = [n for n in mapsrc.map_names() if n != '841.4010.XXXC.xml'] + ['x12.control.00401.xml', 'x12.control.00501.xml']
    if not thorough:
        names = mapsrc.quick_subset(names) + ['x12.control.00501.xml', '277.5010.X214.xml']
    report.rule = ('every element and component node of the maps (quick: 7 maps, a sample of nodes; thorough: all maps, all nodes) x a '
                   'value catalogue spanning each boundary (lengths min-1..max+1, every inline code, members/non-members of the '
                   'external set, each character class, dates/times, signs and points, trailing blanks, control characters, absent) '
                   'x charset {B, E} x external-code exclusion {off, on}; whole segments with random element values for the '
                   'composite / too-many / qualifier-selected-format paths.  Distinct = distinct (map, node, value, settings).')
    settings = [('', 'B'), ('', 'E')]
    for name in names:
        for (excl0, charset) in settings:
            d, m = mapser.impl_mapdump(name, exclude=excl0, charset=charset)
            if m is None:
                continue
            refs = mapser.node_refs(m)
            eles = [(r, n) for r, n in refs if type(n).__name__ == 'element_if']
            if not thorough:
                eles = rng.sample(eles, min(len(eles), 120 if charset == 'B' else 40))
            ext_sets = sorted(set(n.external_codes for _, n in eles if n.external_codes))
            run_settings = [(excl0, m)]
            if ext_sets and charset == 'B':
                ex = ','.join(ext_sets[:2])
                d2, m2 = mapser.impl_mapdump(name, exclude=ex, charset=charset)
                if m2 is not None:
                    run_settings.append((ex, m2))
                # excluding ONE set must not exempt another whose name is a part of it (claim_status / claim_status_cat), nor
                # one that merely shares a prefix: single-set exclusions of every set NOT used here whose name contains a used one,
                # and of the first used set alone
                for ex1 in sorted(set([b for b in all_code_sets() for a in ext_sets if a != b and a in b] + ext_sets[:1])):
                    d3, m3 = mapser.impl_mapdump(name, exclude=ex1, charset=charset)
                    if m3 is not None and ex1 != ex:
                        run_settings.append((ex1, m3))
            for (excl, mm) in run_settings:
                args = [name, excl, charset]
                cases = []
                for r, n in eles:
                    try:
                        de = mm.data_elements.get_by_elem_num(n.data_ele)
                    except Exception:  # noqa
                        continue
                    cat = value_catalogue(rng, n, de)
                    if not thorough:
                        cat = cat[:8] + rng.sample(cat[8:], min(len(cat) - 8, 10))
                    for v in cat:
                        cases.append((r, v))
                for r, v in cases:
                    args += ['.'.join(str(i) for i in r), 'N' if v is None else 'V' + v]
                if not cases or not ctx['driver_ok']:
                    continue
                outs = mr.run([('elevalid', args), ('c15_spec', args)], preload=mapser.preload([name]), shards=2)
                mo = outs[0].split('\n')
                so = outs[1].split('\n')
                for k, (r, v) in enumerate(cases):
                    io = mapser.impl_elevalid(mm, r, None if v is None else [v])
                    inp = {'map': name, 'ref': list(r), 'value': v, 'charset': charset, 'exclude': excl}
                    report.case((name, r, v, charset, excl))
                    report.count('charset:' + charset)
                    report.count('exclude:' + ('on' if excl else 'off'))
                    if k < len(mo):
                        report.corr_case('element', inp, mo[k], io)
                    got = codes_of(io)
                    if isinstance(got, str):
                        report.fail('C15:raises:%s' % got, 'element validation raised %s' % got, inp)
                        continue
                    report.count('impl:' + ('valid' if io.startswith('T') else 'invalid'))
                    if (io.startswith('F')) != bool(got):
                        report.fail('C15:bool-vs-errors', 'boolean result %s but errors %r' % (io[0], got), inp)
                    if k < len(so) and not so[k].startswith(('!', '?')):
                        want = sorted(set(x for x in so[k].split(',') if x))
                        if got != want:
                            node = mapser.node_by_ref(mm, r)
                            ctl = v is not None and any(ord(ch) < 32 for ch in v)
                            if ctl and set(got) <= set(want) and '6' in got:
                                report.fail('C15:control-char-preempts', 'control character suppressed %r' % sorted(set(want) - set(got)), inp,
                                            reported=got, implied=want)
                            else:
                                report.fail('C15:codes:%s:missing[%s]extra[%s]' % (
                                    de_type(mm, node), ','.join(sorted(set(want) - set(got))), ','.join(sorted(set(got) - set(want)))),
                                    'reported %r, implied by the definition %r' % (got, want), inp)
                    if k % 1501 == 0:
                        report.sample({'map': name, 'node': mapser.node_by_ref(mm, r).id, 'value': v, 'reported': got})
            # whole segments: composites, too many elements, DTP02->DTP03 and 1250->1251 formats
            segs = [(r, n) for r, n in refs if type(n).__name__ == 'segment_if']
            segs = rng.sample(segs, min(len(segs), 400 if thorough else 60))
            sargs = [name, excl0, charset]
            scases = []
            for r, n in segs:
                for _ in range(3 if n.id in ('DTP', 'CLM', 'SV1', 'HI') else 1):
                    vals = []
                    for c in n.children:
                        if c.is_composite():
                            k = rng.choice([len(c.children), len(c.children), max(len(c.children) - 1, 1), 1, len(c.children) + 1])
                            vals.append(':'.join(rng.choice(['', 'A', '12', '20040101', 'AD', 'HC']) for _ in range(k)))
                        else:
                            codes = [x for x in c.valid_codes if x]
                            vals.append(rng.choice(['', 'X', '123', '0:5', 'A:B:C', ':', '20040230', '20040101', '20040101-20040131', '1200', 'abc ', '-1.5',
                                                    (rng.choice(codes) if codes else 'ZZ'), 'A' * 40, 'D8', 'RD8', 'TM']))
                    r0 = rng.random()
                    if r0 < 0.3:
                        vals = vals[:rng.randint(0, len(vals))]
                    elif r0 < 0.4:
                        vals = vals + ['EXTRA']
                    scases.append((r, n.id + '*' + '*'.join(vals)))
            # every DTP node (all of them, not a sample): each format its DTP02 allows x a value of each date / time shape
            for r, n in refs:
                if type(n).__name__ == 'segment_if' and n.id == 'DTP' and len(n.children) >= 3:
                    quals = [x for x in n.children[0].valid_codes if x][:1] or ['472']
                    for q in [x for x in n.children[1].valid_codes if x in ('D8', 'RD8', 'TM', 'DT')]:
                        for v in ('20110101', '20110101-20110220', '200406180800', '1200', '20110230', '2011010'):
                            scases.append((r, 'DTP*%s*%s*%s' % (quals[0], q, v)))
            for r, t in scases:
                sargs += ['.'.join(str(i) for i in r), '~*:', t]
            if scases and ctx['driver_ok']:
                outs = mr.run([('segvalid', sargs)], preload=mapser.preload([name]), shards=1)
                mo = outs[0].split('\n')
                for k, (r, t) in enumerate(scases):
                    io = mapser.impl_segvalid(m, r, '~*:', t)
                    report.case((name, r, t, charset))
                    report.count('segments')
                    if k < len(mo):
                        report.corr_case('segment_valid', {'map': name, 'ref': list(r), 'segment': t, 'charset': charset}, mo[k], io)
                    if io.startswith('!'):
                        report.fail('C15:segment-raises:%s' % io, 'segment validation raised %s' % io,
                                    {'map': name, 'ref': list(r), 'segment': t})
                        continue
                    # composites: a REQUIRED component of a composite that is present (and used) draws 'missing' (1) exactly when the
                    # data gives no value for it - whether the value stops before it, or leaves it empty
                    import pyx12.segment as _sgm
                    nd_ = mapser.node_by_ref(m, r)
                    sg_ = _sgm.Segment(t, '~', '*', ':')
                    filed = {}
                    cur_key = None
                    for ev_ in io.split('|')[1:]:
                        q_ = ev_.split(',')
                        if q_[0] == 'A':
                            cur_key = (int(q_[4]), int(q_[2])) if q_[3] == 'T' else None
                            if cur_key is not None:
                                filed.setdefault(cur_key, [])
                        elif q_[0] == 'E' and cur_key is not None:
                            filed[cur_key].append(q_[1])
                    for ci_, c_ in enumerate(nd_.children):
                        if not c_.is_composite() or c_.usage == 'N' or ci_ >= len(sg_):
                            continue
                        comp_ = sg_.get('%02d' % (ci_ + 1))
                        if comp_ is None or comp_.is_empty() or len(comp_) > len(c_.children):
                            continue
                        for si_, sub_ in enumerate(c_.children):
                            given = si_ < len(comp_) and comp_[si_].get_value() != ''
                            if sub_.usage != 'R':
                                continue
                            report.count('composite-required-component:%s' % ('given' if given else ('empty' if si_ < len(comp_) else 'beyond-the-value')))
                            has1 = '1' in filed.get((c_.seq, sub_.seq), [])
                            if has1 == given:
                                report.fail('C15:composite-required-component:%s' % ('missing-not-reported' if not given else 'reported-though-given'),
                                            'composite %s of %r: required component %d is %s, code 1 %s' % (
                                                c_.refdes, t, si_ + 1, 'given' if given else 'not given', 'reported' if has1 else 'not reported'),
                                            {'map': name, 'ref': list(r), 'segment': t})
                    # DTP: the value (DTP03) is judged against the format NAMED by the qualifier sent (DTP02), not against any
                    # format the map allows there
                    parts_ = t.split('*')
                    if parts_[0] == 'DTP' and len(parts_) >= 4 and parts_[2] in ('D8', 'RD8', 'TM', 'DT', 'D6') and parts_[3] != '' \
                            and ':' not in parts_[3] and all(32 <= ord(c_) < 127 for c_ in parts_[3]):
                        fits_ = fits_format(parts_[2], parts_[3])
                        nd_ = mapser.node_by_ref(m, r)
                        try:
                            de3_ = m.data_elements.get_by_elem_num(nd_.children[2].data_ele)
                            ok_q_ = parts_[2] in nd_.children[1].valid_codes and nd_.children[2].usage != 'N' and \
                                de3_['min_len'] <= len(parts_[3]) <= de3_['max_len'] and len(parts_) <= len(nd_.children) + 1
                        except Exception:  # noqa
                            ok_q_ = False
                        if fits_ is None or not ok_q_:
                            continue               # judged only when the qualifier is one the node allows and the length is in range
                        cur_, code8 = 0, False
                        for ev_ in io.split('|')[1:]:
                            q_ = ev_.split(',')
                            if q_[0] == 'A' and q_[3] == 'F':
                                cur_ = int(q_[2])
                            elif q_[0] == 'E' and cur_ == 3 and q_[1] in ('8', '9'):      # invalid date (8) / invalid time (9)
                                code8 = True
                        report.count('dtp-format-judged')
                        if code8 == fits_:
                            report.fail('C15:dtp-format:%s:%s' % (parts_[2], 'accepted' if fits_ is False else 'rejected'),
                                        'DTP03 %r with qualifier %s: format error reported = %s, but the value %s that format' % (
                                            parts_[3], parts_[2], code8, 'fits' if fits_ else 'does not fit'),
                                        {'map': name, 'ref': list(r), 'segment': t})


def _date8(v):
    if len(v) != 8 or not v.isdigit() or not all(c in '0123456789' for c in v):
        return False
    y, mo, d_ = int(v[:4]), int(v[4:6]), int(v[6:])
    if y < 1800 or not 1 <= mo <= 12 or d_ < 1:
        return False
    dim = [31, 29 if (y % 4 == 0 and (y % 100 != 0 or y % 400 == 0)) else 28, 31, 30, 31, 30, 31, 31, 30, 31, 30, 31][mo - 1]
    return d_ <= dim


def _time(v):
    if len(v) not in (4, 6, 7, 8) or not all(c in '0123456789' for c in v):
        return False
    return v[:2] <= '23' and v[2:4] <= '59' and (len(v) == 4 or v[4:6] <= '59')


def fits_format(fmt, v):
    """does v fit the X12 date / time format named fmt (my reading; D6 is left to the implementation: windowing)"""
    if fmt == 'D8':
        return _date8(v)
    if fmt == 'RD8':
        return v.count('-') == 1 and all(_date8(x) for x in v.split('-'))
    if fmt == 'TM':
        return _time(v)
    if fmt == 'DT':
        # the validator reads the qualifier DT as its data type DT, which C13 defines: a date of 8 digits, of 6 digits (century
        # window: left to the implementation), or a date plus HHMM
        if len(v) == 6:
            return None
        if len(v) == 8:
            return _date8(v)
        return len(v) == 12 and v.isdigit() and _date8(v[:8]) and v[8:10] <= '23' and v[10:12] <= '59'
    return None


def de_type(m, node):
    try:
        return m.data_elements.get_by_elem_num(node.data_ele)['data_type']
    except Exception:  # noqa
        return '?'


def replay(rp):
    f = rp.get('failure') or {}
    print(f.get('what'), f.get('input'))
    return 1
