"""C11 — the writer always emits balanced envelopes with correct counts."""
import io
import random

import core
import docgen
import implrun

META = {
    'theorem_files': ['Props/C11.v'],
    'theorems': [],
    'trusted_base': [
        'Coq 8.16.1 kernel; no native_compute',
        'Model/Writer.v + Model/Reader.v (shared X12Base bookkeeping): hand transcription of X12Writer.Write/Close/'
        '_popToLoop/_close_*/_get_trailer_segment/_write_isa_segment',
        'tools/gen/consts.py (writer default delimiters, ids excluded from the segment count)',
        'extraction (ExtrOcamlBasic only) + ocaml/driver.ml',
        'Spec/C11_spec.v: my reading of "well-nested write sequence"',
    ],
    'assumptions': ['written values are free of the writer\'s delimiters; header control numbers are present and unique in '
                    'their scope (otherwise the reader rightly reports duplicates); the 837 LX rewriting is exercised by the '
                    'correspondence only'],
}

WD = [('~', '*', ':'), ('~', '*', '\\'), ('\n', '|', '>'), ('!', '+', '.')]


def history(rng, d, icvn):
    """a well-nested write history with trailers supplied (any counts/ids), or omitted at any level"""
    h = []
    n_isa = rng.choice([1, 1, 2])
    icns = rng.sample(range(1, 999999), n_isa)
    for a in range(n_isa):
        icn = '%09d' % icns[a]
        h.append(docgen.isa(icn, d, icvn))
        gcns = rng.sample(range(1, 9999), 3)
        if rng.random() < 0.06:
            gcns = [gcns[0]] * 3
        ng = rng.randint(0, 3)
        for g in range(ng):
            h.append(docgen.seg(d, 'GS', 'HC', 'S', 'R', '20030828', '1128', str(gcns[g]), 'X', '004010X098A1'))
            scns = rng.sample(range(1, 9999), 4)
            if rng.random() < 0.12:
                scns = [scns[0]] * 4          # every set of the group re-uses one control number (sets merged from several files)
            ns = rng.randint(0, 3)
            for s in range(ns):
                if rng.random() < 0.06:
                    h.append(docgen.seg(d, 'ST', '837'))          # a set header without a control number: closed by a trailer without one
                else:
                    h.append(docgen.seg(d, 'ST', '837', '%04d' % scns[s]))
                for _ in range(rng.randint(0, 4)):
                    if rng.random() < 0.12:
                        # a segment that carries no data at all (bare id, or separators only): still a segment, written and counted
                        h.append(rng.choice(['REF', 'NTE', 'N3']) + d[1] * rng.choice([0, 1, 2]))
                        continue
                    h.append(docgen.seg(d, rng.choice(['REF', 'NM1', 'HL', 'LX', 'CLM']), rng.choice(['87', '1', '']),
                                        ['A', 'B'] if rng.random() < 0.2 else 'X%d' % rng.randint(0, 9)))
                if rng.random() < 0.6 or s < ns - 1:
                    h.append(docgen.seg(d, 'SE', rng.choice(['0', '3', 'x', '']), rng.choice(['%04d' % scns[s], '9', ''])))
            if rng.random() < 0.6 or g < ng - 1:
                h.append(docgen.seg(d, 'GE', rng.choice(['0', '1', 'x']), rng.choice([str(gcns[g]), '7'])))
        if rng.random() < 0.7 or a < n_isa - 1:
            h.append(docgen.seg(d, 'IEA', rng.choice(['0', '1', '5']), rng.choice([icn, '000000000'])))
    return h


def has_reused_ids(h, ds):
    seen_st, seen_gs, seen_isa = set(), set(), set()
    for s in h:
        p = s.split(ds[1])
        if p[0] == 'ISA':
            if p[13] in seen_isa:
                return True
            seen_isa.add(p[13])
            seen_gs = set()
        elif p[0] == 'GS':
            if p[6] in seen_gs:
                return True
            seen_gs.add(p[6])
            seen_st = set()
        elif p[0] == 'ST':
            st2 = p[2] if len(p) > 2 else None
            if st2 in seen_st:
                return True
            seen_st.add(st2)
    return False


def independent_recount(text, wd):
    """trailer counts and ids of a written text against a plain recount: -> [(key, message)]"""
    T, E = wd[0], wd[1]
    segs = [x.lstrip('\r\n') for x in text.split(T)]
    segs = [x for x in segs if x.strip('\r\n ') != '']
    bad = []
    isa = gs = st = None
    n_gs = n_st = n_seg = 0
    open_levels = []
    for s in segs:
        p = s.split(E)
        sid = p[0]
        get = lambda i: p[i] if i < len(p) else None
        if sid == 'ISA':
            isa, n_gs = get(13), 0
            open_levels.append('ISA')
        elif sid == 'GS':
            gs, n_st = get(6), 0
            n_gs += 1
            open_levels.append('GS')
        elif sid == 'ST':
            st, n_seg = get(2), 1
            n_st += 1
            open_levels.append('ST')
        elif sid == 'SE':
            n_seg += 1
            if get(1) != str(n_seg):
                bad.append(('SE01', 'SE01 is %r, the set holds %d segments' % (get(1), n_seg)))
            if get(2) != st:
                bad.append(('SE02', 'SE02 is %r, ST02 was %r' % (get(2), st)))
            if not open_levels or open_levels.pop() != 'ST':
                bad.append(('nesting', 'SE without open set'))
        elif sid == 'GE':
            if get(1) != str(n_st):
                bad.append(('GE01', 'GE01 is %r, the group holds %d sets' % (get(1), n_st)))
            if get(2) != gs:
                bad.append(('GE02', 'GE02 is %r, GS06 was %r' % (get(2), gs)))
            if not open_levels or open_levels.pop() != 'GS':
                bad.append(('nesting', 'GE without open group'))
        elif sid == 'IEA':
            if get(1) != str(n_gs):
                bad.append(('IEA01', 'IEA01 is %r, the interchange holds %d groups' % (get(1), n_gs)))
            if get(2) != isa:
                bad.append(('IEA02', 'IEA02 is %r, ISA13 was %r' % (get(2), isa)))
            if not open_levels or open_levels.pop() != 'ISA':
                bad.append(('nesting', 'IEA without open interchange'))
        else:
            n_seg += 1
    if open_levels:
        bad.append(('unclosed', 'left open at the end: %r' % open_levels))
    return bad


def run(ctx, report):
    rng = random.Random(ctx['seed'])
    mr = core.ModelRunner()
    n = 2500 if ctx['tier'] == 'thorough' else 350
    report.rule = ('well-nested write histories (1-2 interchanges x 0-3 groups x 0-3 sets x 0-4 body segments; trailers '
                   'supplied with arbitrary counts/ids or omitted at each level) closed after EVERY prefix (quick: a sample '
                   'of prefixes); 4 writer delimiter settings, segments built with the same or other delimiters; plus '
                   'mutated (ill-nested) histories for the model tie only.  Distinct = distinct (settings, ops).')
    cases = []
    for k in range(n):
        wd = rng.choice(WD)
        same = rng.random() < 0.7
        ds = wd if same else rng.choice([x for x in WD if x != wd])
        icvn = rng.choice(['00401', '00501'])
        h = history(rng, ds, icvn)
        ill = rng.random() < 0.2
        if ill:
            for _ in range(rng.choice([1, 2])):
                h = docgen.mutate_structure(rng, h, ds)
        lx = rng.random() < 0.25
        prefixes = range(0, len(h) + 1) if ctx['tier'] == 'thorough' and k % 10 == 0 else \
            sorted(set([len(h)] + [rng.randint(0, len(h)) for _ in range(2)]))
        for p in prefixes:
            cases.append((wd, ds, lx, h[:p], ill, same))
    reqs = [('writer', [''.join(wd), '^', '\n' if wd[0] != '\n' else '', ''.join(ds), '1' if lx else '0'] +
             ['W' + s for s in h] + ['C']) for (wd, ds, lx, h, ill, same) in cases]
    outs = mr.run(reqs) if ctx['driver_ok'] else [None] * len(cases)
    import pyx12.x12file
    for k, (wd, ds, lx, h, ill, same) in enumerate(cases):
        eol = '\n' if wd[0] != '\n' else ''
        io_ = implrun.impl_writer(''.join(wd), '^', eol, ''.join(ds), lx, ['W' + s for s in h] + ['C'])
        report.case((wd, ds, lx, tuple(h)))
        report.count('kind:' + ('ill-nested' if ill else 'well-nested'))
        if outs[k] is not None:
            report.corr_case('writer', {'wd': wd, 'ds': ds, 'lx': lx, 'history': h}, outs[k], io_)
        if ill or not h:
            continue
        if not same:
            # segments built with other delimiters: the ISA written must still carry the WRITER's delimiters
            if '!' in io_:
                continue
            text = ''.join(bytes.fromhex(x).decode('latin-1') for x in io_.split('|') if x)
            try:
                src = pyx12.x12file.X12Reader(io.StringIO(text))
                got_d = (src.seg_term, src.ele_term, src.subele_term)
            except Exception as e:  # noqa
                got_d = type(e).__name__
            report.count('isa-delims-checked')
            if got_d != tuple(wd):
                report.fail('C11:isa-delimiters:%s' % h[0].split(ds[1])[12], 'the ISA written does not carry the writer\'s delimiters: '
                            'reader derives %r, writer used %r' % (got_d, tuple(wd)), {'wd': wd, 'ds': ds, 'history': h, 'lx': lx}, text=text[:300])
            continue
        if io_.endswith('!X12Error') or '!' in io_:
            report.fail('C11:writer-raises', 'writer raised on a well-nested history', {'wd': wd, 'history': h}, got=io_[-60:])
            continue
        pieces = [bytes.fromhex(x).decode('latin-1') for x in io_.split('|') if x]
        text = ''.join(pieces)
        # the property: re-read without envelope errors; non-trailer segments unchanged and in order
        ro = implrun.impl_reader(lx, text, [], stream=io.StringIO(text))
        report.count('reread')
        if ro.startswith('!'):
            report.fail('C11:output-unreadable:%s' % ro, 'written text cannot be read', {'wd': wd, 'history': h})
            continue
        env = [e for p in ro.split('|')[1:] for e in (p[1:] if p.startswith('C') else p.rpartition(':')[2]).split(',')
               if e and e.split('/')[0] in ('isa', 'gs', 'st')]
        # re-used control numbers in the history are the caller's: the reader rightly reports them (st/23, gs/6 ...), the writer
        # cannot repair them; the counts are judged by the independent recount below
        if has_reused_ids(h, ds):
            report.count('history-with-reused-control-numbers')
            env = []
        if env:
            report.fail('C11:envelope-errors:%s' % '+'.join(sorted(set('/'.join(e.split('/')[:2]) for e in env))),
                        'written text re-read with envelope errors %r' % env[:6], {'wd': wd, 'history': h, 'lx': lx},
                        text=text[:600])
            continue
        # the same counts by a recount that shares no code with the reader (the reader and the writer share X12Base)
        bad = independent_recount(text, wd)
        report.count('independent-recount')
        if bad:
            report.fail('C11:recount:%s' % bad[0][0], 'written text: %s' % '; '.join(b[1] for b in bad[:4]), {'wd': wd, 'history': h, 'lx': lx},
                        text=text[:600])
            continue
        src = pyx12.x12file.X12Reader(io.StringIO(text))
        got = [s.format(wd[0], wd[1], wd[2]) for s in src if s.get_seg_id() not in ('SE', 'GE', 'IEA')]
        want = []
        for s in h:
            sid = docgen.seg_id_of(s, ds)
            if sid in ('SE', 'GE', 'IEA'):
                continue
            import pyx12.segment
            sg = pyx12.segment.Segment(s, ds[0], ds[1], ds[2])
            if sid == 'ISA':
                if sg.get_value('ISA12') == '00501':
                    sg.set('ISA11', '^')
                sg.set('ISA16', wd[2])
            if sid == 'LX' and lx:
                continue_lx = True
            want.append(sg.format(wd[0], wd[1], wd[2]))
        if lx:
            got = [g for g in got if not g.startswith('LX' + wd[1])]
            want = [w for w in want if not w.startswith('LX' + wd[1])]
        if got != want:
            report.fail('C11:segments-changed', 'non-trailer segments differ from the history', {'wd': wd, 'history': h},
                        got=got[:8], want=want[:8])
        if k % 101 == 0:
            report.sample({'wd': wd, 'history': h, 'written': text[:500]})


def replay(rp):
    f = rp.get('failure') or {}
    print(f.get('what'))
    inp = f.get('input') or {}
    if 'history' in inp:
        wd = inp['wd']
        print(implrun.impl_writer(''.join(wd), '^', '\n', ''.join(wd), inp.get('lx', False), ['W' + s for s in inp['history']] + ['C']))
    return 1
