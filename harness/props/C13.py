"""C13 — data-type recognisers accept exactly the X12 value languages."""
import itertools
import random

import core

META = {
    'theorem_files': ['Props/C13.v'],
    'theorems': ['C13_exact_languages', 'C13_never_raises', 'C13_integer', 'C13_decimal', 'C13_identifier',
                 'C13_string', 'C13_date', 'C13_date_range', 'C13_time'],
    'trusted_base': [
        'Coq 8.16.1 kernel (coqc), vm_compute used for 256-/65536-way character sweeps; no native_compute',
        'tools/gen/regexes.py: transcription of the compiled patterns of pyx12.validation into the regex AST '
        '(parsed by CPython re._parser); fail-closed on unknown syntax',
        'Lib/Regex.v backtracking matcher as a model of CPython re.search on the subset; tied by this run\'s '
        'correspondence (model vs implementation on every generated string)',
        'Model/Validation.v: hand transcription of IsValidDataType/match_re/not_match_re/is_valid_date/is_valid_time',
        'extraction: ExtrOcamlBasic only; ocaml/driver.ml (hex line protocol)',
        'Spec/C13_spec.v is my reading of the property text (languages, Gregorian calendar, X12 character sets)',
        'code points above 255 are outside the model (a separate non-Latin-1 stream is checked against never-raises only)',
    ],
    'assumptions': ['charset is "B" or "E" (the two settings the library defines); any other charset with ID/AN '
                    'raises UnboundLocalError in both model and code and is outside the property'],
}

TYPES = ['N', 'N0', 'N2', 'R', 'ID', 'AN', 'DT', 'D8', 'D6', 'RD8', 'TM', 'B', '', 'XX', 'NX', 'D', 'T']
CHARSETS = ['B', 'E']
ICVNS = ['00401', '00501']


def impl(val, ty, cs, icvn):
    from pyx12.validation import IsValidDataType
    r = core.call_impl(IsValidDataType, val, ty, cs, icvn)
    if r is True:
        return 'T'
    if r is False:
        return 'F'
    return r if isinstance(r, str) else '?' + repr(r)


def gen_cases(tier, rng):
    cases = []  # (kind, val, ty, cs, icvn)
    thorough = tier == 'thorough'
    # 1. exhaustive over the sign/point/digit alphabet
    alpha = '-.0159a \n'
    maxlen = 5 if thorough else 4
    for n in range(0, maxlen + 1):
        for tup in itertools.product(alpha, repeat=n):
            v = ''.join(tup)
            for ty in ('N', 'R'):
                cases.append(('num', v, ty, 'B', '00401'))
            if n <= 4:
                cases.append(('num', v, 'TM', 'B', '00401'))
    # 2. dates: all (y, m, d) over representative years
    years = [0, 1, 1799, 1800, 1899, 1900, 1999, 2000, 2001, 2023, 2024, 2100, 2400, 9999]
    for y in years:
        for m in range(0, 14):
            for d in range(0, 33):
                v8 = '%04d%02d%02d' % (y, m, d)
                cases.append(('date', v8, 'D8', 'B', '00401'))
                cases.append(('date', v8, 'DT', 'E', '00501'))
                if thorough or d in (0, 1, 28, 29, 30, 31, 32):
                    cases.append(('date', v8 + '-' + v8, 'RD8', 'B', '00401'))
    for yy in (0, 1, 4, 49, 50, 51, 96, 99):
        for m in range(0, 14):
            for d in (0, 1, 28, 29, 30, 31, 32):
                v6 = '%02d%02d%02d' % (yy, m, d)
                cases.append(('date', v6, 'D6', 'B', '00401'))
                cases.append(('date', v6, 'DT', 'B', '00401'))
                cases.append(('date', v6, 'D8', 'B', '00401'))
    # 3. date + HHMM, date ranges with 0..3 hyphens
    good = ['20040229', '19991231', '18000101']
    # halves that are valid dates of ANOTHER length (YYMMDD, CCYYMMDDHHMM): a range takes CCYYMMDD halves only
    bad = ['20030229', '17991231', '2004022', '200402299', '2004a229', '', '040229', '960229', '991231', '200402291200', '0402291200', '040230']
    for a in good + bad:
        for hh in ('0000', '2359', '2400', '2360', '12', '123', '12345', '12a4'):
            cases.append(('datetime', a + hh, 'DT', 'B', '00401'))
        for b in good + bad:
            for sepr in ('-', '', '--', '-x-'):
                cases.append(('range', a + sepr + b, 'RD8', 'B', '00401'))
            cases.append(('range', a + '-' + b + '-' + a, 'RD8', 'B', '00401'))
            cases.append(('range', '-' + a + '-' + b, 'RD8', 'B', '00401'))
    # 4. times: field boundaries x lengths 0..9
    hhs = ['00', '09', '19', '20', '23', '24', '29', '30', '99']
    mms = ['00', '59', '60', '99']
    sss = ['', '0', '00', '59', '60', '99']
    dds = ['', '0', '00', '99', '000']
    for hh in hhs:
        for mm in mms:
            for ss in sss:
                for dd in dds:
                    cases.append(('time', hh + mm + ss + dd, 'TM', 'B', '00401'))
    for v in ('', '1', '12', '123', '2', '3', '24', '1a', ' 1200', '1200 ', '12:00', '-1200'):
        cases.append(('time', v, 'TM', 'E', '00501'))
    # 5. all 256 single characters under the three character-set settings, embedded and alone
    for c in range(256):
        ch = chr(c)
        for cs in CHARSETS:
            for icvn in ICVNS:
                cases.append(('charset', ch, 'ID', cs, icvn))
                cases.append(('charset', 'AB' + ch + 'C9', 'AN', cs, icvn))
    # 6. every type x odd values (dispatcher)
    # a valid value followed/preceded by one line break or blank ($ matches before a final newline in re)
    for v0, ty in (('1', 'N'), ('-10', 'N2'), ('1.325', 'R'), ('.5', 'R'), ('20040229', 'D8'), ('040229', 'D6'), ('200402291200', 'DT'),
                   ('1200', 'TM'), ('120059', 'TM'), ('20040101-20040131', 'RD8'), ('ABC', 'ID'), ('A B', 'AN')):
        for pre, post in (('', '\n'), ('', '\r'), ('', '\n\n'), ('\n', ''), ('', ' '), (' ', ''), ('', '\x00'), ('', '\t')):
            cases.append(('edge-ws', pre + v0 + post, ty, 'E', '00501'))
    odd = ['', ' ', '0', '-0', '1.5', '20040229', '1200', 'ABC', 'abc', '^', '`', '\n', '-', '.', '.5', '5.', '1-2']
    for ty in TYPES:
        for v in odd:
            for cs in CHARSETS:
                cases.append(('dispatch', v, ty, cs, rng.choice(ICVNS)))
    # 7. random strings over mixed alphabets
    n_rand = 60000 if thorough else 6000
    alphabets = ['0123456789', '0123456789-.', '0123456789-. a', ''.join(chr(i) for i in range(32, 127)),
                 ''.join(chr(i) for i in range(256))]
    for _ in range(n_rand):
        a = rng.choice(alphabets)
        n = rng.choice([0, 1, 2, 3, 4, 5, 6, 7, 8, 9, 12, 13, 17])
        v = ''.join(rng.choice(a) for _ in range(n))
        cases.append(('random', v, rng.choice(TYPES), rng.choice(CHARSETS), rng.choice(ICVNS)))
    return cases


def classify(kind, v, ty, spec):
    """failure key: specific to the recogniser and the shape of the value"""
    shape = ''.join('d' if c.isdigit() else ('-' if c == '-' else ('.' if c == '.' else 'x')) for c in v[:12])
    return 'C13:%s:%s:%s' % (ty or 'empty', 'accepts' if spec == 'F' else 'rejects', shape or 'emptystring')


def run(ctx, report):
    rng = random.Random(ctx['seed'])
    cases = gen_cases(ctx['tier'], rng)
    report.rule = ('exhaustive strings over {- . 0 1 5 9 a space LF} up to length %d for N/R (TM to 4); all y-m-d over 14 '
                   'years x months 0..13 x days 0..32 as D8/DT/RD8; D6 windows; date+HHMM; date ranges with 0..3 hyphens; '
                   'time field boundaries x lengths 0..9; all 256 characters x {B,E} x {00401,00501}; dispatcher types; '
                   'random strings.  A case is non-trivial/distinct by its (value,type,charset,version) tuple; '
                   'counted distinct tuples.' % (5 if ctx['tier'] == 'thorough' else 4))
    mr = core.ModelRunner()
    reqs_model = [('validation', [v, ty, cs, icvn]) for (_, v, ty, cs, icvn) in cases]
    reqs_spec = [('c13_spec', [v, ty, cs, icvn]) for (_, v, ty, cs, icvn) in cases]
    if ctx['driver_ok']:
        outs = mr.run(reqs_model + reqs_spec)
        model_out = outs[:len(cases)]
        spec_out = outs[len(cases):]
    else:
        model_out = spec_out = [None] * len(cases)
    for i, (kind, v, ty, cs, icvn) in enumerate(cases):
        got = impl(v, ty, cs, icvn)
        report.case((v, ty, cs, icvn))
        report.count('kind:' + kind)
        report.count('impl:' + (got if got in ('T', 'F') else 'raise'))
        if i % 4001 == 0:
            report.sample({'value': v, 'type': ty, 'charset': cs, 'icvn': icvn, 'impl': got,
                           'model': model_out[i], 'spec': spec_out[i]})
        if model_out[i] is not None:
            report.corr_case('validation', {'value': v, 'type': ty, 'charset': cs, 'icvn': icvn}, model_out[i], got)
        # oracle: the property itself, evaluated on the implementation
        if got.startswith('!'):
            report.fail('C13:%s:raises:%s' % (ty or 'empty', got), 'IsValidDataType raised %s' % got,
                        {'value': v, 'type': ty, 'charset': cs, 'icvn': icvn})
        elif spec_out[i] is not None and spec_out[i] in ('T', 'F') and got != spec_out[i]:
            report.fail(classify(kind, v, ty, spec_out[i]),
                        'IsValidDataType(%r, %r, %r, %r) = %s but the language says %s' % (v, ty, cs, icvn, got, spec_out[i]),
                        {'value': v, 'type': ty, 'charset': cs, 'icvn': icvn}, impl=got, spec=spec_out[i])
    # non-Latin-1 stream: outside the model, never-raises only
    for v in ['١٢', '１２３４', 'é', ' ', '2004٠229', '٣', '\U0001F600']:
        for ty in TYPES:
            got = impl(v, ty, 'E', '00501')
            report.count('kind:nonlatin1')
            report.evaluations += 1
            if got.startswith('!'):
                report.fail('C13:%s:raises-nonlatin1:%s' % (ty, got), 'raised on non-Latin-1 input',
                            {'value': v, 'type': ty})
            elif got == 'T' and ty not in ('', 'B'):
                report.fail('C13:%s:accepts-nonlatin1' % ty, 'accepted a non-ASCII value',
                            {'value': v, 'type': ty})


def replay(rp):
    f = rp.get('failure') or {}
    inp = f.get('input')
    if not inp:
        print('replay file names broken obligations only:', rp.get('broken'))
        return 1
    got = impl(inp['value'], inp['type'], inp.get('charset', 'B'), inp.get('icvn', '00401'))
    print('IsValidDataType(%r, %r, %r, %r) -> %s ; required by the language: %s' % (
        inp['value'], inp['type'], inp.get('charset', 'B'), inp.get('icvn', '00401'), got, f.get('spec')))
    return 0 if got == f.get('spec') else 1
