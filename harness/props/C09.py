"""C09 — the context reader partitions the document without loss, duplication or reordering."""
import io
import logging
import random

import core
import ctxcorr
import walk_gen

META = {
    'theorem_files': ['Props/C09.v'],
    'theorems': ['C09_no_loss_no_reorder_partial', 'C09_unrestricted_is_false', 'C09_allocation_order', 'C09_no_loss_no_reorder', 'C09_shipped_no_loss_no_reorder', 'C09_isa_loop_needs_cross_map_condition'],
    'trusted_base': [
        'Coq 8.16.1 kernel; no native_compute',
        'Model/Context.v, CtxReader.v (+ Reader, Walker, MapTree): hand transcription of x12context.py — tied by this run '
        '(iter_segments on generated documents and loop ids: model text vs implementation text)',
        'extraction (ExtrOcamlBasic only) + ocaml/driver.ml',
    ],
    'assumptions': ['theorem premise: no loop node is inserted before an older sibling during the run (holds whenever sibling loops have '
                    'distinct ids, as far as I could probe; not proved from a map-level condition)'],
}


def source_and_paths(text):
    """-> [(formatted segment, seg_count, cur_line, loop path list of the matched node or None, is first seg in loop)], exception"""
    import pyx12.params
    import pyx12.x12n_document
    rows = []

    def cb(seg, src, node, valid):
        located = node is not None and node.id == seg.get_seg_id()
        try:
            path = [x for x in node.parent.get_path().split('/') if x] if located else None
            first = bool(located and node.is_first_seg_in_loop())
        except Exception:  # noqa
            path, first = None, False
        rows.append((seg.format(), src.get_seg_count(), src.get_cur_line(), path, first))
    try:
        pyx12.x12n_document.x12n_document(pyx12.params.params(), io.StringIO(text), None, None, None, callback=cb)
    except Exception as e:  # noqa
        return rows, type(e).__name__
    return rows, None


def iterate(text, loop_id):
    """-> ([('L'|'S', root id, [(formatted, seg_count, cur_line)])], exception)"""
    import pyx12.error_handler
    import pyx12.params
    import pyx12.x12context
    out = []
    try:
        src = pyx12.x12context.X12ContextReader(pyx12.params.params(), pyx12.error_handler.errh_null(), io.StringIO(text))
        for node in src.iter_segments(loop_id):
            segs = [(d['segment'].format(), d['seg_count'], d['cur_line_number']) for d in node.iterate_segments()]
            nest = []
            starts = {}          # id(loop instance) -> index (in this tree) of the first segment it holds

            def walk(n, loops, insts):
                if n.type == 'loop':
                    for ch in n.children:
                        if ch.type is not None:
                            walk(ch, loops + [n.id], insts + [id(n)])
                elif n.type == 'seg':
                    for i_ in insts:
                        starts.setdefault(i_, len(nest))
                    nest.append((loops, starts[insts[-1]] if insts else None))
            walk(node, [], [])
            out.append(('L' if node.type == 'loop' else 'S', node.id, segs, nest))
    except Exception as e:  # noqa
        return out, '%s: %s' % (type(e).__name__, str(e)[:80])
    return out, None


def expected_partition(rows, loop_id):
    """maximal runs of segments whose matched path contains loop_id, cut at every first segment of that loop"""
    parts, cur = [], None
    for i, (fmt, sc, cl, path, first) in enumerate(rows):
        inside = loop_id is not None and path is not None and loop_id in path
        if inside:
            starts = path[-1] == loop_id and first
            if cur is None or starts:
                if cur is not None:
                    parts.append(('L', cur))
                cur = []
            cur.append(i)
        else:
            if cur is not None:
                parts.append(('L', cur))
                cur = None
            parts.append(('S', [i]))
    if cur is not None:
        parts.append(('L', cur))
    return parts


def oracle_doc(report, rng, thorough, what, text, only_loop_ids=None):
    """the partition / arrangement oracle on one document, for loop id None, the envelope loops and the segment-anchored
    loops occurring in it (or for the given loop ids only)"""
    if True:
        rows, exn = source_and_paths(text)
        if exn or not rows or any(r[3] is None for r in rows):
            report.count('oracle:skipped-not-all-located')
            return
        loop_ids = [None, 'ISA_LOOP', 'GS_LOOP', 'ST_LOOP']
        seen = []
        for r in rows:
            if r[4] and r[3][-1] not in seen and r[3][-1] not in loop_ids:
                seen.append(r[3][-1])               # loops that begin with a segment and occur in the document
        loop_ids += seen if thorough else rng.sample(seen, min(len(seen), 4))
        if only_loop_ids is not None:
            loop_ids = list(only_loop_ids)
        for lid in loop_ids:
            report.case(('oracle', text, lid))
            report.count('oracle:loop-id:' + ('None' if lid is None else ('envelope' if lid in ('ISA_LOOP', 'GS_LOOP', 'ST_LOOP') else 'body')))
            got, exn2 = iterate(text, lid)
            inp = {'what': what, 'loop_id': lid, 'text': text[:3000]}
            if exn2:
                report.fail('C09:raises:%s:%s' % (exn2.split(':')[0], 'envelope' if lid in ('ISA_LOOP', 'GS_LOOP', 'ST_LOOP') else 'body'),
                            'iter_segments(%r) raised %s' % (lid, exn2), inp)
                continue
            flat = [s for (_k, _id, segs, _n) in got for s in segs]
            want = [(r[0], r[1], r[2]) for r in rows]
            if [x[0] for x in flat] != [x[0] for x in want]:
                k = next((i for i, (a, b) in enumerate(zip(flat, want)) if a[0] != b[0]), min(len(flat), len(want)))
                kind = 'lost' if len(flat) < len(want) else ('duplicated' if len(flat) > len(want) else 'reordered')
                report.fail('C09:segments-%s:%s' % (kind, 'envelope' if lid in ('ISA_LOOP', 'GS_LOOP', 'ST_LOOP') else ('None' if lid is None else 'body')),
                            'segments differ from the source at position %d: %d yielded, %d in the source' % (k, len(flat), len(want)), inp)
                continue
            if flat != want:
                k = next(i for i, (a, b) in enumerate(zip(flat, want)) if a != b)
                report.fail('C09:position-or-line', 'segment %d carries (seg_count, line) %r, the reader had %r' % (k, flat[k][1:], want[k][1:]), inp)
            exp = expected_partition(rows, lid)
            shape = [(k, len(segs)) for (k, _id, segs, _n) in got]
            if shape != [(k, len(ix)) for (k, ix) in exp]:
                report.fail('C09:partition:%s' % ('envelope' if lid in ('ISA_LOOP', 'GS_LOOP', 'ST_LOOP') else 'body'),
                            'trees/plain nodes yielded %r, expected %r' % (shape[:12], [(k, len(ix)) for (k, ix) in exp][:12]), inp)
                continue
            pos = 0
            for (k, rid, segs, nest) in got:
                if k == 'L' and rid != lid:
                    report.fail('C09:tree-root', 'a tree is rooted at %r, requested %r' % (rid, lid), inp)
                    break
                if k == 'L':
                    bad = None
                    merged = None
                    for j, (loops, inst_start) in enumerate(nest):
                        path = rows[pos + j][3]
                        want_loops = path[path.index(lid):] if lid in path else None
                        if loops != want_loops:
                            bad = (j, loops, want_loops)
                            break
                        # a segment that opens an instance of its loop is the first segment of the loop node that holds it
                        if rows[pos + j][4] and inst_start != j and merged is None:
                            merged = (j, path[-1], inst_start)
                    if bad:
                        report.fail('C09:arrangement:%s' % ('envelope' if lid in ('ISA_LOOP', 'GS_LOOP', 'ST_LOOP') else 'body'),
                                    'segment %d of a tree sits under loops %r but matched the map path %r' % bad, inp)
                        break
                    if merged:
                        report.fail('C09:instances-merged:%s' % ('envelope' if lid in ('ISA_LOOP', 'GS_LOOP', 'ST_LOOP') else 'body'),
                                    'segment %d opens an instance of loop %s but sits in a loop node that began at segment %d' % merged, inp)
                        break
                pos += len(segs)


def run(ctx, report):
    rng = random.Random(ctx['seed'])
    logging.disable(logging.CRITICAL)
    thorough = ctx['tier'] == 'thorough'
    report.rule = ('(a) model vs implementation: iter_segments on generated and corpus documents (valid, mutated, several sets/groups/'
                   'interchanges, synthetic cases) x loop ids (occurring, envelope, absent, None, lower-case, first-child-is-a-loop); '
                   '(b) oracle on the implementation for documents in which every segment is located by its own id, for loop id None, '
                   'the envelope loops and every segment-anchored loop occurring in the document: the segments of the yielded nodes, '
                   'concatenated, are the source segments in order; the trees are exactly the maximal runs of the requested loop cut '
                   'at its first segment, rooted at that loop; every segment carries its seg_count and line.  Distinct = (text, loop id).')
    ctxcorr.iters(report, ctx, rng, 400 if thorough else 80, thorough)
    # (b) oracle
    import pipecorr
    import pipe_gen
    names = walk_gen.DOC_MAPS if thorough else walk_gen.QUICK_MAPS
    docs = []
    for k in range(120 if thorough else 30):
        name = rng.choice(names)
        n_isa, n_gs, n_st = rng.choice([(1, 1, 1), (1, 1, 2), (1, 2, 1), (2, 1, 1)])
        segs, d = walk_gen.map_document(rng, name, None, n_isa=n_isa, n_gs=n_gs, n_st=n_st, p_seg=0.2, p_loop=0.3, max_segs=40)
        docs.append(('map:%s:%d/%d/%d' % (name, n_isa, n_gs, n_st), walk_gen.encode_document(rng, segs, d)))
    for k in range(40 if thorough else 10):
        # every loop twice and hardly any optional segment: back-to-back loop instances that consist of their first segment only
        name = rng.choice(names)
        segs, d = walk_gen.map_document(rng, name, None, p_seg=rng.choice([0.0, 0.05]), p_loop=0.5, max_segs=60, loop_twice=True)
        docs.append(('map-bare-twice:%s' % name, walk_gen.encode_document(rng, segs, d)))
    for ck, text in pipe_gen.corpus_docs():
        docs.append(('corpus:' + ck, text))
    for what, text in docs:
        oracle_doc(report, rng, thorough, what, text)
    # search for a failing input where model and implementation parted: the oracle on exactly those (text, loop id)
    for (what, text, lid) in getattr(report, 'disagreeing_inputs', [])[:40]:
        report.count('oracle:on-disagreeing-input')
        oracle_doc(report, rng, thorough, 'disagreement:' + what, text, only_loop_ids=[lid])
    logging.disable(logging.NOTSET)


def replay(rp):
    f = rp.get('failure') or {}
    print(f.get('what'))
    return 1
