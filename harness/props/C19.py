"""C19 — the HTML report shows every segment and error, with all source data escaped."""
import collections
import io
import logging
import random
import re

import core
import docgen
import out_gen
import out_impl

META = {
    'theorem_files': ['Props/C19.v'],
    'theorems': ['C19_escape_safe', 'C19_escape_recoverable', 'C19_segment_text', 'C19_no_foreign_markup', 'C19_heading_escaped', 'C19_footer_text', 'C19_doc_calls', 'C19_doc_text', 'C19_doc_strip', 'C19_doc_nodes', 'C19_doc_errors_kept', 'C19_errors_not_all_shown'],
    'trusted_base': [
        'Coq 8.16.1 kernel; vm_compute for 256-character sweeps; no native_compute',
        'Model/Html.v, Model/ErrIter.v: hand transcription of error_html.py and err_iter (tied by this run: scripts of handler '
        'events and gen_seg / footer / loop calls, model text vs implementation text)',
        'Model/Errh.v error-handler heap (tied by the errh differential)',
        'Spec/C19_spec.v: the tag stripper and the plain rendering are my reading of the property',
        'extraction (ExtrOcamlBasic only) + ocaml/driver.ml',
        'document level (every source segment gets exactly one gen_seg call, in order) is NOT a theorem yet: it is checked on '
        'the implementation by the oracle of this run',
    ],
    'assumptions': ['error CODES contain no < > & (they are constants of the library); messages and values are arbitrary'],
}

REPORT_TAGS = {'<span class="error">', '<span class="seg">', '<span class="info">', '<span class="ele_err">', '</span>', '<br />',
               '</div>', '<p>', '</p>', '</a>', '</body>', '</html>', '<a href="http://sourceforge.net/projects/pyx12/">'}
HEADER_TAGS = {'<html>', '<head>', '</head>', '<title>', '</title>', '<style type="text/css">', '</style>', '<body>', '<h1>', '</h1>',
               '<h3>', '</h3>', '<div class="segs" style="">', '<link rel="stylesheet" href="errors.css" type="text/css" />'}
ENT = {'&amp;': '&', '&nbsp;': ' ', '&gt;': '>', '&lt;': '<'}
HOSTILE = ['<b>x</b>', 'A&B', 'a <i> b', '"q"', "it's", '&lt;', '&amp;amp;', '<script>', 'x>y', '</span>', '<br />', 'A  B', '&', '<', '>']


def strip(text):
    """the tag stripper of Spec/C19_spec.v"""
    out, tags, i, n = [], [], 0, len(text)
    while i < n:
        c = text[i]
        if c == '<':
            j = text.find('>', i)
            if j < 0:
                tags.append(text[i:])
                break
            tags.append(text[i:j + 1])
            i = j + 1
            continue
        if c == '&':
            for k, v in ENT.items():
                if text.startswith(k, i):
                    out.append(v)
                    i += len(k)
                    break
            else:
                out.append(c)
                i += 1
            continue
        out.append(c)
        i += 1
    return ''.join(out), tags


def hostile_doc(rng):
    """a generated document whose body values carry markup characters; sometimes markup characters as delimiters"""
    import walk_gen
    name = rng.choice(['837.4010.X098.A1.xml', '834.5010.X220.A1.xml', '835.4010.X091.A1.xml', '270.4010.X092.A1.xml'])
    d = rng.choice([('~', '*', ':'), ('~', '*', ':'), ('~', '<', ':'), ('~', '*', '>'), ('&', '*', ':'), ('~', '|', '^'), ('\n', '*', ':')])
    segs, d = walk_gen.map_document(rng, name, d, n_st=rng.choice([1, 2]), p_seg=0.2, p_loop=0.2, max_segs=40)
    out = []
    for s in segs:
        parts = s.split(d[1])
        if parts[0] not in docgen.ENVELOPE and rng.random() < 0.35:
            ks = [k for k in range(1, len(parts)) if re.match(r'^X\d+A*$', parts[k])]
            if ks:
                v = rng.choice(HOSTILE)
                if not any(ch in v for ch in d):
                    parts[rng.choice(ks)] = v
        if parts[0] not in docgen.ENVELOPE and rng.random() < 0.05:
            parts[0] = rng.choice(['<b>', 'A&B', 'Z<'])          # unknown segment ids made of markup characters
            if any(ch in parts[0] for ch in d):
                parts[0] = 'ZZZ'
        out.append(d[1].join(parts))
    if rng.random() < 0.4:
        import walk_gen as wg
        m = __import__('mapsrc').load(name)
        out, _kind = wg.mutate_body(rng, out, d, m)
    return name, d, docgen.encode(out, d, rng.choice(['', '\n']) if d[0] != '\n' else '')


def run_impl(text):
    """-> (html text or None, source segments [(line, formatted)], recorded errors [(line, kind, msg)], exception)"""
    import pyx12.error_handler
    import pyx12.params
    import pyx12.x12file
    import pyx12.x12n_document
    real = pyx12.error_handler.err_handler
    rec = []

    class Rec(real):
        def seg_error(self, err_cde, err_str, err_value=None, src_line=None):
            rec.append((self._line(), 'seg', err_cde, err_str))
            real.seg_error(self, err_cde, err_str, err_value, src_line)

        def ele_error(self, err_cde, err_str, bad_value, refdes=None):
            rec.append((self._line(), 'ele', err_cde, err_str))
            real.ele_error(self, err_cde, err_str, bad_value, refdes)

        def _line(self):
            return cur[0]
    cur = [0]
    segs = []

    def cb(seg, src, node, valid):
        pass
    fd = io.StringIO()
    exn = None
    # the source segments, read independently
    try:
        src = pyx12.x12file.X12Reader(io.StringIO(text))
        for s in src:
            segs.append((src.get_cur_line(), s.get_seg_id(), [[s.get_value('%02i-%i' % (i, j)) or '' for j in range(1, s.ele_len('%02i' % i) + 1)] if s.is_composite('%02i' % i)
                                                                 else (s.get_value('%02i' % i) or '') for i in range(1, len(s) + 1)]))
        term = src.get_term()
    except Exception:  # noqa
        return None, [], [], 'not-x12'
    pyx12.error_handler.err_handler = Rec
    real_iter = pyx12.x12file.X12Reader.__iter__

    def it(self):
        for s in real_iter(self):
            cur[0] = self.cur_line
            yield s
    pyx12.x12file.X12Reader.__iter__ = it
    try:
        try:
            pyx12.x12n_document.x12n_document(pyx12.params.params(), io.StringIO(text), None, fd, None)
        except Exception as e:  # noqa
            exn = type(e).__name__
    finally:
        pyx12.error_handler.err_handler = real
        pyx12.x12file.X12Reader.__iter__ = real_iter
    return fd.getvalue(), (segs, term), rec, exn


def check_doc(report, name, text, label):
    html, src, rec, exn = run_impl(text)
    inp = {'document': label, 'text': text[:4000]}
    if exn == 'not-x12':
        report.count('docs:not-x12')
        return
    report.case((label, text))
    report.count('docs:' + ('completed' if not exn else 'raised:' + exn))
    if exn:
        return          # C07's subject; the property quantifies over documents on which validation completes
    segs, term = src
    plain, tags = strip(html)
    # 0. nothing of the source is written raw: outside the report's own tags the text holds no '>' and no '&' that is not one of
    #    the four entities the report uses (a raw '<' shows up as a foreign tag below)
    k0 = html.find('<div class="segs"')
    raw = re.sub(r'<[^<>]*>', '', html[k0:]) if k0 >= 0 else ''
    raw = raw.replace('&amp;', '').replace('&lt;', '').replace('&gt;', '').replace('&nbsp;', '')
    if '>' in raw or '&' in raw or '<' in raw:
        bad = next(c for c in raw if c in '<>&')
        k = raw.find(bad)
        report.fail('C19:raw-markup-character:%s' % {'<': 'lt', '>': 'gt', '&': 'amp'}[bad],
                    'the report body holds an unescaped %r: ...%r...' % (bad, raw[max(0, k - 30):k + 30]), inp)
    # 1. complete document, own tags only
    if not (html.startswith('<html>') and html.rstrip().endswith('</html>')):
        report.fail('C19:incomplete-document', 'report does not start with <html> and end with </html>', inp)
    foreign = [t for t in tags if t not in REPORT_TAGS and t not in HEADER_TAGS and not t.startswith('<!--')]
    if foreign:
        report.fail('C19:foreign-markup:%s' % foreign[0][:20], 'tags that are not the report\'s own: %r' % foreign[:5], inp)
    # 2. every source segment once, in order, with line number and all values
    body = plain.split('Analysis Date:', 1)[-1]
    E, S, T = term[1], term[2], term[0]
    want = []
    for (ln, sid, els) in segs:
        want.append('%d: %s%s%s%s' % (ln, sid, E, E.join(S.join(e) if isinstance(e, list) else e for e in els), T))
    pos = 0
    blocks = []
    missing = None
    for w in want:
        k = body.find('\n' + w + '\n', pos) if T != '\n' else body.find('\n' + w, pos)
        if k < 0:
            missing = w
            break
        blocks.append(k)
        pos = k + 1
    if missing is not None:
        report.fail('C19:segment-not-listed', 'source segment not found (in order) in the stripped report: %r' % missing[:120], inp)
        return
    report.count('segments', len(want))
    for w in set(want):
        if want.count(w) == 1 and body.count('\n' + w + ('\n' if T != '\n' else '')) > 1:
            report.fail('C19:segment-listed-twice', 'segment appears more than once: %r' % w[:120], inp)
            break
    # 3. every reported segment/element error message next to its segment
    blocks.append(len(body))
    line_to_block = {ln: i for i, (ln, _, _) in enumerate(segs)}
    lines_with_errors = set(ln for (ln, _k, _c, _m) in rec)
    # the situation of a line, for the failure key (recorded findings are specific to these situations): after a set was opened
    # inside an unclosed set; right after a line that drew errors; otherwise
    situation = {}
    open_set, broken = False, False
    for i, (ln, sid, _e) in enumerate(segs):
        if sid == 'ST':
            if open_set:
                broken = True
            open_set = True
        elif sid == 'SE':
            open_set = False
        prev_ln = segs[i - 1][0] if i > 0 else None
        outside = (not open_set) and sid not in ('ISA', 'GS', 'ST', 'SE', 'GE', 'IEA')
        situation[ln] = 'after-unclosed-set' if broken else ('outside-set' if outside else
                                                             ('prev-had-errors' if prev_ln in lines_with_errors else 'prev-clean'))
    shown_count = {}
    for (ln, kind, cde, msg) in rec:
        report.count('errors:' + kind)
        i = line_to_block.get(ln)
        if i is None:
            continue
        sid = segs[i][1]
        chunk = body[blocks[i]:blocks[i + 1]]
        if kind == 'seg' and cde == '3':
            # "mandatory ... missing" is printed just BEFORE the segment at which it was noticed
            chunk = body[(blocks[i - 1] if i > 0 else 0):blocks[i + 1]]
        if msg not in chunk:
            where = 'elsewhere' if msg in body else 'nowhere'
            report.fail('C19:error-not-next-to-segment:%s:%s:%s:%s:%s' % (kind, cde, where, sid, situation[ln]),
                        '%s error %s %r reported while processing line %d (%s) is %s in the report' % (kind, cde, msg[:80], ln, sid, where),
                        inp, line=ln)
        shown_count.setdefault((msg, kind, cde), []).append((ln, sid))
    # ... and no more often than it was reported
    for (msg, kind, cde), where_ in shown_count.items():
        if len(msg) > 12 and body.count(msg) > len(where_):
            ln, sid = where_[0]
            report.fail('C19:error-shown-more-often-than-reported:%s:%s:%s' % (kind, cde, sid),
                        '%s error %s %r was reported %d time(s) (line %d, %s) but is printed %d times' % (kind, cde, msg[:80], len(where_), ln, sid, body.count(msg)),
                        inp, line=ln)


def run(ctx, report):
    rng = random.Random(ctx['seed'])
    logging.disable(logging.CRITICAL)
    thorough = ctx['tier'] == 'thorough'
    report.rule = ('(a) model vs implementation: random scripts of error-handler events interleaved with gen_seg / loop / footer calls '
                   '(protocol-conformant and chaotic), text compared; (b) oracle on the implementation: corpus documents and generated '
                   'documents of 4 maps with markup characters in values, in segment ids and as delimiters, valid and mutated: the '
                   'report is stripped of tags by an independent stripper and must list every source segment once, in order, with '
                   'line number and all values, show every recorded seg/ele error message inside its segment\'s block, and contain '
                   'only the report\'s own tags.  Distinct = distinct script / document text.')
    # (a) correspondence
    n = 1500 if thorough else 300
    cases = [out_gen.gen_html(rng) for _ in range(n)]
    if ctx['driver_ok']:
        reqs = [out_impl.html_request(t, term, cmds) for (_, t, term, cmds) in cases]
        outs = core.ModelRunner().run(reqs)
        for k, (kind, t, term, cmds) in enumerate(cases):
            impl = out_impl.impl_html(t, term, cmds)
            report.case(('script', k, kind))
            report.count('script-kind:' + kind)
            report.count('script-commands', len(cmds))
            report.corr_case('html', {'kind': kind, 'time': t, 'term': list(term), 'commands': [repr(c)[:200] for c in cmds][:60]}, outs[k], impl)
    # (b) oracle on documents
    from pyx12.test.x12testdata import datafiles
    for k in sorted(datafiles):
        if datafiles[k].get('source'):
            check_doc(report, k, datafiles[k]['source'], 'corpus:' + k)
    # dense conformant documents (many composites) whose component separator / element separator is a markup character
    import confgen
    for k in range(24 if thorough else 8):
        name = rng.choice(['837.4010.X098.A1.xml', '837.5010.X222.A1.xml', '835.5010.X221.A1.xml'])
        d = [('~', '*', '<'), ('~', '*', '&'), ('~', '*', '>'), ('~', '<', ':'), ('~', '&', '<'), ('>', '*', '<')][k % 6]
        try:
            segs, d, _sel = confgen.document(rng, name, d, n_st=1, p_seg=0.3, p_loop=0.6, max_segs=80)
        except Exception:  # noqa
            continue
        report.count('delims:' + repr(''.join(d)))
        report.count('composite-values', sum(1 for sg in segs for e in sg.split(d[1]) if d[2] in e))
        check_doc(report, name, docgen.encode(segs, d, ''), 'dense:%s:%s' % (name, ''.join(d)))
    # crafted: errors on set / group / interchange header and trailer lines, late reader errors, a set opened inside a set
    I0 = 'ISA*00*          *00*          *ZZ*SENDER         *ZZ*RECEIVER       *030101*1253*U*00401*000000001*0*P*:~'
    G0 = 'GS*FA*SS*RR*20030101*1253*1*X*004010~'
    crafted = {
        'late-reader-error-on-SE-after-shown-segment': 'ST*997*0001~AK1*HC*1~AK9*A*X*1*1~SE*4*0001*~GE*1*1~IEA*1*000000001~',
        'reader-error-on-SE': 'ST*997*0001~AK1*HC*1~AK9*A*1*1*1~SE*4*0001*~GE*1*1~IEA*1*000000001~',
        'set-inside-unclosed-set': 'ST*997*0001~AK1*HC*X~ST*997*0002~AK1*HC*Y~AK9*A*Z*1*1~SE*4*0002~GE*1*1~IEA*1*000000001~',
        'element-errors-on-ST-and-SE': 'ST*997*00000000001~AK1*HC*1~AK9*A*1*1*1~SE*4*00000000001~GE*1*1~IEA*1*000000001~',
        'element-errors-on-ST-and-SE-after-shown-segment': 'ST*997*00000000001~AK1*HC*1~AK9*A*X*1*1~SE*4*00000000001~GE*1*1~IEA*1*000000001~',
        'reader-error-on-GE': 'ST*997*0001~AK1*HC*1~AK9*A*1*1*1~SE*4*0001~GE*1*1*~IEA*1*000000001~',
        'reader-error-on-IEA': 'ST*997*0001~AK1*HC*1~AK9*A*1*1*1~SE*4*0001~GE*1*1~IEA*1*000000001*~',
        'reader-error-on-ST': 'ST*997*0001*~AK1*HC*1~AK9*A*1*1*1~SE*4*0001~GE*1*1~IEA*1*000000001~',
        'leading-blank-on-GE': 'ST*997*0001~AK1*HC*1~AK9*A*1*1*1~SE*4*0001~ GE*1*1~IEA*1*000000001~',
        'element-error-on-GE': 'ST*997*0001~AK1*HC*1~AK9*A*1*1*1~SE*4*0001~GE*1*1234567890~IEA*1*000000001~',
    }
    for what, body_ in sorted(crafted.items()):
        report.count('crafted')
        check_doc(report, '997.4010.xml', I0 + G0 + body_, 'crafted:' + what)
    for k in range(120 if thorough else 25):
        name, d, text = hostile_doc(rng)
        report.count('delims:' + repr(''.join(d)))
        check_doc(report, name, text, 'gen:%s:%d' % (name, k))
    logging.disable(logging.NOTSET)


def replay(rp):
    f = rp.get('failure') or {}
    print(f.get('what'))
    return 1
