"""Generators for the report-generator correspondence (see out_impl.py for the command tuples).

 gen_html(rng)   -> (kind, time string, term, commands): html scripts.
    protocol: the call pattern of x12n_document around every segment — walker errors, add_* / close_*,
      handle_errors, validation (add_ele + ele_error), html.loop for the first segment of a loop, then
      the iterator + gen_seg ('R') with that very segment; footer at the end.  Segment values contain
      < > & " ' and blanks, composites, 0-8 errors per segment, errors on ISA / GS / ST / SE / GE / IEA,
      code '3' segment errors (printed before the line), 'GS' messages on GE, trailers left out, documents
      without ST / GS / ISA (footer dereferences None).
    chaos: an errh_gen chaos sequence with R / Q / L / N / F thrown in anywhere.
 gen_xmlout(rng, maps) -> (map name, mapdir, dtd, calls): walks of the map's segment nodes in order with
    repeats and jumps, data built from the node definition (special characters, empty elements, composites,
    too many elements / sub-elements, usage 'N' elements filled in), some non-segment references.
 mutate_xml / xmlin documents: see gen_xmlin."""
import copy
import os
import shutil
import tempfile
import xml.etree.ElementTree as et

import errh_gen as G
import mapser

SPECIAL = ['<', '>', '&', '"', "'", ' ', 'a<b', 'x&y', '&amp;', '<b>', "it's", '"q"', '  ', ' lead', 'trail ',
           'A&B<C>D', '&&', '<>', '&lt;', 'a b c', "'", '&nbsp;', '< >', '>>', 'R&D "x"']
ALNUM = 'ABCDEFXYZ0123456789'


def clean(v, d, keep_sub=False):
    for c in (d[0], d[1]) if keep_sub else (d[0], d[1], d[2]):
        v = v.replace(c, '')
    return v


def data_val(rng, d):
    r = rng.random()
    if r < 0.12:
        return ''
    if r < 0.42:
        v = rng.choice(SPECIAL)
    elif r < 0.55:
        v = ''.join(rng.choice(ALNUM + '<>&"\' ') for _ in range(rng.randint(1, 8)))
    else:
        v = ''.join(rng.choice(ALNUM) for _ in range(rng.randint(1, 6)))
    return clean(v, d)


def data_seg(rng, d, sid=None, n=None):
    """(text, [number of components per element])"""
    sid = sid or rng.choice(['REF', 'NM1', 'HL', 'CLM', 'LX', 'SV1', 'DTP', 'BHT', 'N3', 'N4', 'HI'])
    n = rng.randint(0, 7) if n is None else n
    els, shape = [], []
    for _ in range(n):
        if rng.random() < 0.22:
            k = rng.randint(2, 4)
            els.append(d[2].join(data_val(rng, d) for _ in range(k)))
            shape.append(k)
        else:
            els.append(data_val(rng, d))
            shape.append(1)
    return d[1].join([sid] + els), shape


def html_msg(rng, word=None):
    ws = [rng.choice(G.WORDS + ['<b>bad</b>', 'a&b', 'x < y', '"quoted"', "it's", 'GS', 'GS06', '  ']) for _ in
          range(rng.randint(0, 4))]
    if word is not None and rng.random() < 0.7:
        ws.insert(rng.randint(0, len(ws)), '(%s%02d)' % (word, rng.randint(1, 16)))
    return ' '.join(ws)


SEG_CODES = ['3', '3', '3', '1', '2', '4', '5', '6', '8', 'I4', 'SEG1', 'HL1', 'LX', '', '33', ' 3']
ST_CODES = ['1', '2', '2', '3', '3', '4', '5', '6', '7', '23', '', 'I5']
GS_CODES = ['1', '2', '3', '3', '4', '5', '6', '6', '', '66', '16']
ISA_CODES = ['000', '023', '023', '024', '025', 'ISA1', 'xIEAx', 'IEA', 'ISA', '3', '']


def validation(rng, evs, word, shape, heavy):
    """node.is_valid(seg, errh): add_ele + ele_error for elements of THIS segment (shape), sometimes beyond it"""
    n = rng.choice([0, 0, 0, 1, 1, 2, 3] if not heavy else [1, 2, 3, 4, 6])
    for _ in range(n):
        r = rng.random()
        if shape and r < 0.85:
            pos = rng.randint(1, len(shape))
            if shape[pos - 1] > 1 or rng.random() < 0.15:
                sub = rng.randint(1, max(shape[pos - 1], 1) + (1 if rng.random() < 0.1 else 0))
                evs.append(('E', rng.choice([None, '66', 'C040']), G.small_text(rng), sub, True, pos))
            else:
                evs.append(('E', rng.choice([None, '66', '128']), G.small_text(rng), pos, False, pos))
        else:
            evs.append(G.ele_event(rng, max(len(shape), 1) + 1))
        for _ in range(rng.choice([0, 1, 1, 2, 3])):
            evs.append(('e', rng.choice(G.ELE_CODES), html_msg(rng, word), G.value(rng)))
    if rng.random() < 0.08:
        evs.append(('e', rng.choice(G.ELE_CODES), html_msg(rng, word), G.value(rng)))


def reader_errors(rng, kinds, line):
    items = []
    for _ in range(rng.choice([0, 0, 0, 1, 1, 2, 3])):
        t = rng.choice(kinds)
        if t == 'isa':
            items.append(('isa', rng.choice(ISA_CODES), html_msg(rng), None, None))
        elif t == 'gs':
            items.append(('gs', rng.choice(GS_CODES), html_msg(rng), None, None))
        elif t == 'st':
            items.append(('st', rng.choice(ST_CODES), html_msg(rng), None, None))
        else:
            items.append(('seg', rng.choice(SEG_CODES), html_msg(rng), G.value(rng), rng.choice([None, None, line, 0])))
    return ('H', items)


def walker_errors(rng, doc, evs, d):
    for _ in range(rng.choice([0, 0, 0, 0, 1, 2])):
        if rng.random() < 0.4 and G.odd(rng, 1.0):
            evs.append(('s', rng.choice(SEG_CODES), html_msg(rng), G.value(rng), rng.choice([None, None, doc.line, 0])))
        else:
            evs.append(('S', (G.small_text(rng), rng.randint(0, 900)) if rng.random() < 0.9 else None, d,
                        data_seg(rng, d)[0], doc.seg_count, doc.line, rng.choice([None, None, '', 'LS1'])))
            evs.append(('s', rng.choice(['3', '3', '4', '5', '1']), html_msg(rng), None, None))


LOOPS = [('ISA_LOOP', 'Interchange Control Header', 'explicit'), ('GS_LOOP', 'Functional Group Header', 'explicit'),
         ('ST_LOOP', 'Transaction Set Header', 'explicit'), ('HEADER', 'Table 1 - Header', 'wrapper'),
         ('2000A', 'Billing <Provider> & Co', 'explicit'), ('2300', "Claim 'Information'", None),
         ('DETAIL', 'Table 2', 'wrapper'), (None, None, 'implicit'), ('', '', ''), ('2010AA', 'Name', 'implicit')]


def render(rng, evs, d, text, line, loop=None):
    if loop is not None:
        evs.append(('L',) + loop)
    ln = line
    if G.odd(rng, 0.05):
        ln = rng.choice([None, 0, -3])
    evs.append(('R', d, text, ln))


def gen_html_protocol(rng):
    evs = []
    doc = G.Doc(rng)
    d = rng.choice(G.DELIMS)
    heavy = rng.random() < 0.3
    p_trailer = rng.choice([0.6, 0.85, 0.95, 1.0])
    n_isa = rng.choice([0, 1, 1, 1, 1, 2, 2, 3]) if G.odd(rng, 0.3) else rng.choice([1, 1, 2])
    for _a in range(n_isa):
        doc.line += 1
        icn = '%09d' % rng.randint(1, 999999999)
        doc.isa_id = None if G.odd(rng, 0.05) else icn
        text = G.isa_text(rng, d, icn)
        evs.append(('I', d, text, doc.src()))
        evs.append(reader_errors(rng, ['isa', 'isa', 'seg'], doc.line))
        validation(rng, evs, 'ISA', [1] * 16, heavy and rng.random() < 0.5)
        render(rng, evs, d, text, doc.line, LOOPS[0])
        for _g in range(rng.choice([0, 1, 1, 1, 2, 3])):
            doc.line += 1
            gcn = str(rng.randint(1, 99999))
            doc.gs_id = gcn
            doc.st_count = 0
            text = G.gs_text(rng, d, gcn)
            evs.append(('G', d, text, doc.src()))
            evs.append(reader_errors(rng, ['gs', 'gs', 'seg', 'isa'], doc.line))
            validation(rng, evs, 'GS', [1] * 8, heavy and rng.random() < 0.5)
            render(rng, evs, d, text, doc.line, LOOPS[1])
            for _s in range(rng.choice([0, 1, 1, 2, 3])):
                doc.line += 1
                scn = '%04d' % rng.randint(1, 9999)
                doc.st_id = scn
                doc.st_count += 1
                doc.seg_count = 1
                walker_errors(rng, doc, evs, d)
                text = G.st_text(rng, d, scn)
                evs.append(('T', d, text, doc.src()))
                evs.append(reader_errors(rng, ['st', 'st', 'seg'], doc.line))
                validation(rng, evs, 'ST', [1, 1, 1], heavy and rng.random() < 0.5)
                render(rng, evs, d, text, doc.line, LOOPS[2])
                for _b in range(rng.choice([0, 1, 2, 3, 5, 8])):
                    doc.line += 1
                    doc.seg_count += 1
                    text, shape = data_seg(rng, d)
                    if rng.random() < 0.06:
                        # the walker found no node: nothing is recorded, the line is still rendered
                        render(rng, evs, d, text, doc.line)
                        continue
                    walker_errors(rng, doc, evs, d)
                    evs.append(('S', (G.small_text(rng), rng.randint(0, 900)) if rng.random() < 0.95 else None, d, text,
                                doc.seg_count, doc.line, rng.choice([None, None, None, '', 'LS2'])))
                    evs.append(reader_errors(rng, ['seg', 'seg', 'seg', 'st'], doc.line))
                    validation(rng, evs, rng.choice([None, 'REF', 'GS']), shape, heavy)
                    render(rng, evs, d, text, doc.line, rng.choice(LOOPS) if rng.random() < 0.3 else None)
                if rng.random() < p_trailer:
                    doc.line += 1
                    text = d[1].join(['SE', str(doc.seg_count + 1), scn])
                    walker_errors(rng, doc, evs, d)
                    evs.append(reader_errors(rng, ['st', 'st', 'seg'], doc.line))
                    evs.append(('Z', doc.src()))
                    validation(rng, evs, 'SE', [1, 1], False)
                    render(rng, evs, d, text, doc.line)
            if rng.random() < p_trailer:
                doc.line += 1
                text = d[1].join(['GE', str(doc.st_count), gcn])
                evs.append(reader_errors(rng, ['gs', 'gs', 'st', 'seg'], doc.line))
                evs.append(('Y', (d, text) if not G.odd(rng, 0.1) else None, doc.src()))
                validation(rng, evs, rng.choice(['GE', 'GS', 'GS']), [1, 1], False)
                render(rng, evs, d, text, doc.line)
        if rng.random() < p_trailer:
            doc.line += 1
            text = d[1].join(['IEA', '1', icn])
            evs.append(reader_errors(rng, ['isa', 'isa', 'gs'], doc.line))
            evs.append(('X', doc.src()))
            validation(rng, evs, 'IEA', [1, 1], False)
            render(rng, evs, d, text, doc.line)
    if rng.random() < 0.5:
        evs.append(reader_errors(rng, ['isa', 'gs', 'st', 'seg'], doc.line))   # src.cleanup()
    evs.append(('F',))
    return d, evs


def any_cmd(rng, d):
    k = rng.choice('RRRRQQLLNF')
    if k == 'R' and rng.random() < 0.03:
        # more than 99 elements: '%02i' % 100 is not a reference designator
        return ('R', d, d[1].join(['REF'] + ['v'] * rng.choice([99, 100, 101])), 7)
    if k == 'R':
        return ('R', d, G.any_seg_text(rng, d, rng.choice(['ISA', 'GS', 'ST', 'GE', 'REF'])) if rng.random() < 0.5
                else data_seg(rng, d, rng.choice([None, 'GE', 'GS', 'SE', 'ST', 'IEA', 'ISA']))[0],
                rng.choice([None, 0, 1, 2, 30, -1]))
    if k == 'Q':
        return ('Q', rng.choice('re'), d, data_seg(rng, d)[0], rng.randint(0, 50))
    if k == 'L':
        return ('L', 'M') if rng.random() < 0.2 else ('L',) + rng.choice(LOOPS)
    return (k,)


def gen_html_chaos(rng):
    d = rng.choice(G.DELIMS)
    evs = G.gen_chaos(rng)
    for _ in range(rng.randint(1, 10)):
        evs.insert(rng.randint(0, len(evs)), any_cmd(rng, d))
    if rng.random() < 0.7:
        evs.append(('F',))
    return d, evs


def time_str(rng):
    if rng.random() < 0.1:
        return rng.choice(['', '<now>', 'a&b', '  '])
    return '%02d/%02d/%04d %02d:%02d:%02d' % (rng.randint(1, 12), rng.randint(1, 28), rng.randint(1990, 2030),
                                              rng.randint(0, 23), rng.randint(0, 59), rng.randint(0, 59))


def gen_html(rng):
    r = rng.random()
    if r < 0.7:
        kind = 'protocol'
        G.HOSTILE[0] = rng.choice([0.0, 0.0, 0.15, 0.4, 1.0])
        d, evs = gen_html_protocol(rng)
    else:
        kind = 'chaos'
        G.HOSTILE[0] = 1.0
        d, evs = gen_html_chaos(rng)
    evs = [e for e in evs if G.sanitize(e)]
    t = rng.random()
    if t < 0.8:
        term = (d[0], d[1], d[2])
    elif t < 0.9:
        term = ('~', '*', '~')            # the constructor default
    else:
        term = (rng.choice(['', '~', '<br>']), rng.choice(['*', '', ' | ']), rng.choice([':', '', '&']))
    return kind, time_str(rng), term, evs


# ---------------------------------------------------------------- xmlout

XML_SPECIAL = ['&', '<', '>', "'", '"', 'a&b', '<x>', "it's", '"q"', '&amp;', 'A&B<C>D\'E"F', ' ', ' x ', ']]>', '&#60;',
               '\t', 'caf\xe9', '\xa0']
CONTROL = ['\x01', '\x08', 'a\x0bb', '\x1c', '\x00', 'x\x0c']


P_CONTROL = [0.0]      # per sequence: probability that a value is a control character


def xml_val(rng, d):
    r = rng.random()
    if r < 0.1:
        return ''
    if r < 0.4:
        v = rng.choice(XML_SPECIAL)
    elif r < 0.4 + P_CONTROL[0]:
        v = rng.choice(CONTROL)
    elif r < 0.55:
        v = ''.join(rng.choice(ALNUM + '&<>\'" ') for _ in range(rng.randint(1, 8)))
    else:
        v = ''.join(rng.choice(ALNUM) for _ in range(rng.randint(1, 6)))
    return clean(v, d)


def kids(n):
    return [ch for k in sorted(n.pos_map) for ch in n.pos_map[k]]


_segrefs = {}


def seg_refs(key, m):
    """segment nodes in document order with their references, plus loop and element references"""
    if key not in _segrefs:
        segs, others = [], []
        for ref, n in mapser.node_refs(m):
            if n.is_segment():
                segs.append((ref, n))
            else:
                others.append(ref)
        _segrefs[key] = (segs, others)
    return _segrefs[key]


def seg_data_clean(rng, node, d):
    """a segment that fits the node: every defined position, no excess, mostly filled"""
    els = []
    by_seq = {}
    for c in node.children:
        by_seq.setdefault(c.seq, c)
    maxseq = max([c.seq for c in node.children] + [0])
    for i in range(1, maxseq + 1):
        c = by_seq.get(i)
        if c is None or (rng.random() < 0.25 and not (node.id == 'ISA' and i == 16)):
            els.append('')
        elif c.is_composite():
            els.append(d[2].join(xml_val(rng, d) for _ in range(rng.randint(1, max(len(c.children), 1)))))
        else:
            els.append(xml_val(rng, d) or 'X')
    return d[1].join([node.id or 'ZZ'] + els)


def seg_data_for(rng, node, d):
    """segment text built from the node definition"""
    els = []
    n_children = len(node.children)
    maxseq = max([c.seq for c in node.children] + [0])
    n = maxseq
    r = rng.random()
    if r < 0.25:
        n = rng.randint(0, maxseq)
    elif r < 0.33:
        n = maxseq + rng.randint(1, 2)          # more elements than the node
    by_seq = {}
    for c in node.children:
        by_seq.setdefault(c.seq, c)
    p_empty = rng.choice([0.1, 0.3, 0.6])
    for i in range(1, n + 1):
        c = by_seq.get(i)
        if rng.random() < p_empty:
            els.append('')
            continue
        if c is not None and c.is_composite():
            k = len(c.children)
            r2 = rng.random()
            if r2 < 0.12:
                k += rng.randint(1, 2)            # more sub-elements than the composite
            elif r2 < 0.4:
                k = rng.randint(1, max(k, 1))
            els.append(d[2].join(xml_val(rng, d) for _ in range(k)))
        elif rng.random() < 0.05:
            els.append(d[2].join(xml_val(rng, d) for _ in range(rng.randint(2, 3))))   # composite data for a simple element
        else:
            els.append(xml_val(rng, d))
    sid = node.id if node.id and rng.random() < 0.95 else rng.choice(['ZZ', 'ISA', 'X'])
    return d[1].join([sid] + els)


def gen_xmlout(rng, key, m):
    segs, others = seg_refs(key, m)
    if key[0] == 'syn.xml' and rng.random() < 0.75:
        # most walks of the synthetic map stay away from the nodes that always raise (top-level segment, loop without id)
        segs = [(r, n) for (r, n) in segs if n.id not in ('TOP', 'EE')]
        if rng.random() < 0.7:
            others = []
    calls = []
    P_CONTROL[0] = 0.04 if rng.random() < 0.1 else 0.0
    clean_run = rng.random() < 0.3
    if clean_run:
        P_CONTROL[0] = 0.0
        others = []
    d = rng.choice(['~*:', '~*:', '~*:', '~*:', '~*>', '!+.', '~|^'])
    n = rng.choice([1, 2, 3, 5, 8, 12, 20, 30])
    i = 0 if (rng.random() < 0.7 or clean_run) else rng.randrange(len(segs))
    p_skip = rng.choice([0.0, 0.2, 0.5, 0.8])
    while len(calls) < n and segs:
        ref, node = segs[i]
        r = rng.random()
        if others and r < 0.03:
            calls.append((rng.choice(others), d, 'REF' + d[1] + 'x'))       # not a segment
        else:
            calls.append((ref, d, seg_data_clean(rng, node, d) if clean_run else seg_data_for(rng, node, d)))
        # next node: mostly onwards (with skips), sometimes the same again, back to an earlier one, or anywhere
        r = rng.random()
        if r < 0.62:
            i += 1
            while i < len(segs) and rng.random() < p_skip:
                i += 1
        elif r < 0.72:
            pass
        elif r < 0.9:
            i = max(0, i - rng.randint(1, 12))
            # prefer the first segment of a loop (a loop repeat)
            j = i
            while j > 0 and segs[j][0][-1] != 0:
                j -= 1
            if rng.random() < 0.8:
                i = j
        else:
            i = rng.randrange(len(segs))
        if i >= len(segs):
            if rng.random() < 0.5:
                break
            i = rng.randrange(len(segs))
    dtd = rng.choice(['', '', 'http://x/x12simple.dtd', 'x12simple.dtd']) if rng.random() < 0.97 else "it's&<dtd>"
    return dtd, calls


SYN_MAP = """<?xml version="1.0"?>
<transaction xid="SYN">
  <name>synthetic</name>
  <segment xid="TOP"><name>top level</name><usage>R</usage><pos>005</pos><max_use>1</max_use>
    <element xid="TOP01"><data_ele>98</data_ele><name>n</name><usage>R</usage><seq>01</seq></element>
  </segment>
  <loop xid="A" type="explicit"><name>loop A</name><usage>R</usage><pos>010</pos><repeat>&gt;1</repeat>
    <segment xid="AA"><name>first of A</name><usage>R</usage><pos>010</pos><max_use>1</max_use>
      <element xid="AA01"><data_ele>98</data_ele><name>n</name><usage>R</usage><seq>01</seq></element>
      <element xid="AA02"><data_ele>98</data_ele><name>n</name><usage>N</usage><seq>02</seq></element>
      <composite xid="AA03"><data_ele>C040</data_ele><name>c</name><usage>S</usage><seq>03</seq>
        <element xid="AA03-01"><data_ele>98</data_ele><name>n</name><usage>R</usage><seq>01</seq></element>
        <element xid="AA03-02"><data_ele>98</data_ele><name>n</name><usage>S</usage><seq>02</seq></element>
      </composite>
    </segment>
    <segment xid="AB"><name>second of A</name><usage>S</usage><pos>020</pos><max_use>1</max_use>
      <element xid="AB01"><data_ele>98</data_ele><name>n</name><usage>R</usage><seq>01</seq></element>
      <element xid="AB03"><data_ele>98</data_ele><name>n</name><usage>R</usage><seq>03</seq></element>
    </segment>
    <loop xid="A1" type="explicit"><name>loop A1</name><usage>S</usage><pos>030</pos><repeat>&gt;1</repeat>
      <segment xid="A1A"><name>first of A1</name><usage>R</usage><pos>010</pos><max_use>1</max_use>
        <element xid="A1A01"><data_ele>98</data_ele><name>n</name><usage>R</usage><seq>01</seq></element>
      </segment>
    </loop>
    <loop xid="A12" type="explicit"><name>loop A12</name><usage>S</usage><pos>040</pos><repeat>&gt;1</repeat>
      <segment xid="A2A"><name>first of A12</name><usage>R</usage><pos>010</pos><max_use>1</max_use>
        <element xid="A2A01"><data_ele>98</data_ele><name>n</name><usage>R</usage><seq>01</seq></element>
        <element xid="A2A01"><data_ele>98</data_ele><name>dup id</name><usage>R</usage><seq>02</seq></element>
      </segment>
    </loop>
  </loop>
  <loop xid="AB" type="explicit"><name>loop AB</name><usage>R</usage><pos>020</pos><repeat>&gt;1</repeat>
    <segment xid="BA"><name>first of AB</name><usage>R</usage><pos>010</pos><max_use>1</max_use>
      <element xid="BA01"><data_ele>98</data_ele><name>n</name><usage>R</usage><seq>01</seq></element>
    </segment>
    <loop xid="it's&lt;&amp;&gt;" type="explicit"><name>odd id</name><usage>S</usage><pos>030</pos>
      <segment xid="O'D"><name>odd</name><usage>R</usage><pos>010</pos><max_use>1</max_use>
        <element xid="O&lt;1&gt;"><data_ele>98</data_ele><name>n</name><usage>R</usage><seq>01</seq></element>
        <element><data_ele>98</data_ele><name>no id</name><usage>R</usage><seq>02</seq></element>
      </segment>
    </loop>
  </loop>
  <loop xid="" type="explicit"><name>empty id</name><usage>S</usage><pos>030</pos>
    <segment xid="EE"><name>in loop without id</name><usage>R</usage><pos>010</pos><max_use>1</max_use>
      <element xid="EE01"><data_ele>98</data_ele><name>n</name><usage>R</usage><seq>01</seq></element>
    </segment>
  </loop>
</transaction>
"""

_syn_dir = [None]


def synthetic_mapdir():
    """a map directory outside /repo with dataele.xml / codes.xml / maps.xml and a synthetic map: a top-level
    segment, sibling loops whose ids are prefixes of one another (A / AB, A1 / A12), ids with XML-special
    characters, a missing id, an empty loop id, a gap in the element sequence"""
    if _syn_dir[0] is None:
        dd = tempfile.mkdtemp(prefix='pyx12_synmap_')
        __import__('atexit').register(lambda: shutil.rmtree(dd, ignore_errors=True))
        for fn in ('dataele.xml', 'codes.xml', 'maps.xml', 'comp_test.xml'):
            shutil.copy(os.path.join(mapser.MAPDIR, fn), os.path.join(dd, fn))
        with open(os.path.join(dd, 'syn.xml'), 'w') as f:
            f.write(SYN_MAP)
        _syn_dir[0] = dd
    return _syn_dir[0]


# ---------------------------------------------------------------- xmlin

def x12_envelope_xml(rng):
    """a hand-built simple-form document that is a complete interchange (exercises the writer's counters)"""
    def seg(sid, eles):
        s = et.Element('seg', {'id': sid})
        for k, v in eles:
            if isinstance(v, list):
                c = et.SubElement(s, 'comp', {'id': sid})
                for kk, vv in v:
                    e = et.SubElement(c, 'subele', {'id': kk})
                    e.text = vv
            else:
                e = et.SubElement(s, 'ele', {'id': k})
                e.text = v
        return s
    root = et.Element('x12simple')
    cur = root
    icn = '%09d' % rng.randint(1, 999999999)
    isa = ['00', ' ' * 10, '00', ' ' * 10, 'ZZ', 'SENDER'.ljust(15), 'ZZ', 'RECV'.ljust(15), '030828', '1128',
           rng.choice(['U', '^']), rng.choice(['00401', '00501']), icn, '0', 'T', ':']
    if rng.random() < 0.15:
        isa = isa[:rng.randint(3, 15)]
    lp = et.SubElement(cur, 'loop', {'id': 'ISA_LOOP'})
    lp.append(seg('ISA', [('ISA%02d' % (i + 1), v) for i, v in enumerate(isa)]))
    for _g in range(rng.randint(0, 2)):
        g = et.SubElement(lp, 'loop', {'id': 'GS_LOOP'})
        gcn = str(rng.randint(1, 999))
        g.append(seg('GS', [('GS01', 'HC'), ('GS02', 'S'), ('GS03', 'R'), ('GS04', '20030828'), ('GS05', '1128'),
                            ('GS06', gcn), ('GS07', 'X'), ('GS08', '004010X098A1')]))
        for _s in range(rng.randint(0, 2)):
            t = et.SubElement(g, 'loop', {'id': 'ST_LOOP'})
            scn = '%04d' % rng.randint(1, 9999)
            t.append(seg('ST', [('ST01', '837'), ('ST02', scn)]))
            for _b in range(rng.randint(0, 4)):
                sid = rng.choice(['REF', 'NM1', 'HL', 'LX', 'CLM', 'HI'])
                eles = []
                for i in range(1, rng.randint(1, 5)):
                    if rng.random() < 0.2:
                        eles.append((None, [('%s%02d-%d' % (sid, i, j), rng.choice(['A', 'B&C', '', 'x y']))
                                            for j in range(1, rng.randint(2, 4))]))
                    else:
                        eles.append(('%s%02d' % (sid, i), rng.choice(['1', 'AB', 'a<b', "it's", '', ' '])))
                t.append(seg(sid, eles))
            if rng.random() < 0.8:
                t.append(seg('SE', [('SE01', '9'), ('SE02', scn)]))
        if rng.random() < 0.8:
            g.append(seg('GE', [('GE01', '1'), ('GE02', gcn)]))
    if rng.random() < 0.8:
        lp.append(seg('IEA', [('IEA01', '1'), ('IEA02', icn)]))
    return root


BAD_IDS = ['', 'REF', 'REF01', 'REF02', '01', '02-1', 'REF03-2', 'XX01', '00', 'REF00', 'ISA16', 'REF100', 'ref01', '1',
           'REF01-0', '/REF01', 'A/REF01', 'REF[X]01', '[X]01', 'REF1', 'REF*A', 'REF01~', ' 01', '99', 'NM109', 'HL01']


def mutate_tree(rng, root):
    """in place: missing ids, empty / missing text, unknown tags, moved nodes, nested segs, text on containers"""
    nodes = list(root.iter())
    for _ in range(rng.choice([1, 1, 1, 2, 2, 3, 5])):
        n = rng.choice(nodes)
        op = rng.choice(['noid', 'badid', 'notext', 'emptytext', 'retag', 'newchild', 'dupattr', 'text', 'wrap', 'segid',
                         'nest', 'badid', 'notext'])
        if op == 'noid':
            n.attrib.pop('id', None)
        elif op == 'badid':
            n.set('id', rng.choice(BAD_IDS))
        elif op == 'notext':
            n.text = None
        elif op == 'emptytext':
            n.text = ''
        elif op == 'retag':
            n.tag = rng.choice(['ele', 'comp', 'subele', 'seg', 'loop', 'x', 'Ele', 'element'])
        elif op == 'newchild':
            c = et.SubElement(n, rng.choice(['ele', 'subele', 'comp', 'seg', 'note']),
                              {'id': rng.choice(BAD_IDS)} if rng.random() < 0.8 else {})
            c.text = rng.choice([None, '', 'v', 'a&b', ' '])
        elif op == 'dupattr':
            n.set('other', 'x')
        elif op == 'text':
            n.text = rng.choice(['t', ' ', '\n  ', 'a<b', "q'"])
        elif op == 'wrap':
            c = et.Element(rng.choice(['comp', 'ele', 'g']), dict(n.attrib))
            c.extend(list(n))
            for ch in list(n):
                n.remove(ch)
            n.append(c)
        elif op == 'segid':
            for s in root.iter('seg'):
                if rng.random() < 0.3:
                    s.set('id', rng.choice(['', 'REF*A*B', 'ISA', 'IEA', 'GE', 'SE', 'ST', 'GS', 'LX', 'HL', 'R:F', 'REF~']))
        elif op == 'nest':
            segs = list(root.iter('seg'))
            if len(segs) > 1:
                a, b = rng.choice(segs), rng.choice(segs)
                if a is not b and a not in list(b.iter()):
                    a.append(copy.deepcopy(b))
        nodes = list(root.iter())
    return root


def tree_text(root):
    return et.tostring(root, encoding='unicode')
