"""Differential check: model (coq/Model/Errh.v, Ack997.v, Ack999.v via unit "errh") against
pyx12.error_handler / error_997 / error_999 on generated event sequences.

usage: errh_check.py [N] [seed] [--no-build] [--show K]"""
import collections
import random
import sys
import time

import core
import errh_gen
import errh_impl

SECTIONS = ['T', 'N', 'D', 'A', 'E', 'B', 'F', 'G', 'H']


def first_diff(model, impl):
    ms, is_ = model.split('\n'), impl.split('\n')
    for k, (a, b) in enumerate(zip(ms, is_)):
        if a != b:
            j = 0
            while j < min(len(a), len(b)) and a[j] == b[j]:
                j += 1
            return 'section %s at %d:\n   model: %s\n   impl : %s' % (a[:1], j, a[max(0, j - 60):j + 100], b[max(0, j - 60):j + 100])
    return 'lengths differ: %d vs %d sections' % (len(ms), len(is_))


def unhex_lines(sec):
    body, _, exn = sec[2:].rpartition('|')
    return [bytes.fromhex(x).decode('latin-1') for x in body.split(',') if x], exn


def main():
    args = [a for a in sys.argv[1:] if not a.startswith('--')]
    n = int(args[0]) if args else 3000
    seed = int(args[1]) if len(args) > 1 else 20261001
    show = 3
    if '--show' in sys.argv:
        show = int(sys.argv[sys.argv.index('--show') + 1])
    t0 = time.time()
    if '--no-build' not in sys.argv:
        with core.Lock():
            core.ensure_makefile()
            rc, out = core.make(['Model/Units.vo', 'Model/UnitsErrh.vo'], keep_going=False)
            if rc != 0:
                print('BUILD FAILED\n' + out[-3000:])
                return 2
            ok, log = core.build_driver()
            if not ok:
                print('DRIVER BUILD FAILED\n' + log[-3000:])
                return 2
    rng = random.Random(seed)
    cases, hostility = [], []
    for _ in range(n):
        cases.append(errh_gen.gen_case(rng))
        hostility.append(errh_gen.HOSTILE[0])
    reqs = [errh_impl.model_request(clk, evs) for (_, clk, evs) in cases]
    t1 = time.time()
    outs = core.ModelRunner().run(reqs)
    t2 = time.time()
    stats = collections.Counter()
    bad = []
    for k, (kind, clk, evs) in enumerate(cases):
        impl = errh_impl.impl_errh(clk, evs)
        model = outs[k]
        stats['kind:' + kind] += 1
        if kind == 'protocol':
            stats['protocol-hostility:%s' % hostility[k]] += 1
        stats['events'] += len(evs)
        secs = impl.split('\n')
        for e in secs[0][2:].split(','):
            if e.startswith('!'):
                stats['call-raises:' + e] += 1
        for tag, sec in (('997', secs[3]), ('999', secs[5]), ('999-after-997', secs[7])):
            lines, exn = unhex_lines(sec)
            stats['%s:%s' % (tag, exn or 'complete')] += 1
            stats['%s-lines' % tag] += len(lines)
        if secs[2][2:] != secs[4][2:]:
            stats['997-changed-handler'] += 1
        if secs[2][2:] != secs[6][2:]:
            stats['999-changed-handler'] += 1
        if model != impl:
            bad.append((k, kind, clk, evs, model, impl))
    print('sequences=%d seed=%d disagreements=%d  (build+gen %.1fs, model %.1fs, impl+compare %.1fs)' %
          (n, seed, len(bad), t1 - t0, t2 - t1, time.time() - t2))
    for key in sorted(stats):
        print('  %-40s %d' % (key, stats[key]))
    for (k, kind, clk, evs, model, impl) in bad[:show]:
        print('--- case %d (%s) clock=%r' % (k, kind, clk))
        for e in evs:
            print('   ', repr(e))
        print(first_diff(model, impl))
    return 1 if bad else 0


if __name__ == '__main__':
    sys.exit(main())
