"""Differential check of the walker model (coq/Model/Walker.v) and the validation-driver model
(coq/Model/Driver.v) against pyx12.map_walker.walk_tree / pyx12.x12n_document.x12n_document.

usage: walk_check.py [--seed N] [--docs N] [--walks N] [--syn N] [--maps quick|all] [--nocache] [--show K]

Generates cases from the seed (harness/walk_gen.py), runs the implementation (harness/walk_impl.py) and the
extracted model (units "document" and "walk"), reports every disagreement with the first differing line and
prints the distribution (kinds, verdicts, exceptions, error codes).

Comparison: the canonical texts must be equal.  One tolerance, counted separately: when BOTH sides end in the
same exception and the model's trace is a prefix of the implementation's whose remainder consists of
add_ele / ele_error calls only (the exception was raised inside segment_if.is_valid; Model/Element.v returns
its events only on success)."""
import argparse
import collections
import os
import random
import shutil
import sys
import tempfile
import time

import core
import docgen
import mapser
import mapsrc
import walk_gen
import walk_impl


def first_diff(a, b):
    al, bl = a.split('\n'), b.split('\n')
    for i in range(max(len(al), len(bl))):
        x = al[i] if i < len(al) else '<end>'
        y = bl[i] if i < len(bl) else '<end>'
        if x != y:
            return i, x, y
    return None


def doc_equal(model, impl):
    """-> 'eq' | 'tol' | 'diff'"""
    if model == impl:
        return 'eq'
    ml, il = model.split('\n'), impl.split('\n')
    if ml[-1].startswith('!') and ml[-1] == il[-1] and len(ml) <= len(il) and ml[:-1] == il[:len(ml) - 1]:
        rest = il[len(ml) - 1:-1]
        if rest and all(x.startswith(('L,', 'e,')) for x in rest):
            return 'tol'
    return 'diff'


class Stats(object):
    def __init__(self):
        self.cases = collections.Counter()
        self.bad = collections.Counter()
        self.tol = collections.Counter()
        self.dist = collections.Counter()
        self.examples = []
        self.exn_examples = {}

    def disagreement(self, kind, what, model, impl, show):
        self.bad[kind] += 1
        if len(self.examples) < show:
            d = first_diff(model, impl)
            self.examples.append((kind, what, d))


def tally_doc(st, kind, out, what=''):
    lines = out.split('\n')
    last = lines[-1]
    realm = 'synthetic-map doc' if kind.startswith('syn') else 'doc'
    st.dist['%s verdict %s' % (realm, last)] += 1
    if last.startswith('!'):
        # where it was raised: the last handler call before it
        prev = lines[-2].split(',')[0] if len(lines) > 1 else '-'
        key = '%s %s after call %s' % (realm, last, prev)
        st.dist[key] += 1
        st.exn_examples.setdefault((realm, last), what)
    for ln in lines[:-1]:
        k = ln[0]
        if k in 'igtse':
            st.dist['code %s:%s' % ({'i': 'isa', 'g': 'gs', 't': 'st', 's': 'seg', 'e': 'ele'}[k], ln.split(',')[1])] += 1
    st.dist['doc events'] += len(lines) - 1


def tally_walk(st, out):
    for ln in out.split('\n')[:-1]:
        head = ln.split('|')[0]
        if head.startswith('!'):
            st.dist['walk ' + head] += 1
        elif head == 'N':
            st.dist['walk not found'] += 1
        else:
            st.dist['walk found'] += 1
        for ev in ln.split('|')[-1].split('&'):
            if ev.startswith('E,'):
                st.dist['walk seg_error ' + ev.split(',')[1]] += 1


def run_docs(mr, st, cases, charset, exclude, show, cache, mapdir=None, chunk=12):
    """cases: [(kind, what, text)]"""
    t0 = time.time()
    impl = []
    groups = collections.defaultdict(list)
    for k, (kind, what, text) in enumerate(cases):
        out, loaded = walk_impl.impl_document(text, charset, exclude, cache_maps=cache, map_path=mapdir)
        impl.append(out)
        groups[tuple(sorted(set(loaded)))].append(k)
    t1 = time.time()
    reqs, owners, pres = [], [], []
    for names, ks in sorted(groups.items()):
        for i in range(0, len(ks), chunk):
            part = ks[i:i + chunk]
            reqs.append(walk_impl.document_request(charset, exclude, list(names), [cases[k][2] for k in part]))
            owners.append(part)
            pres.append(names)
    # one model run per distinct environment
    model = [None] * len(cases)
    by_env = collections.defaultdict(list)
    for j, names in enumerate(pres):
        by_env[names].append(j)
    for names, js in sorted(by_env.items()):
        ctl = ['x12.control.00401.xml', 'x12.control.00501.xml']
        outs = mr.run([reqs[j] for j in js], preload=mapser.preload(sorted(set(list(names) + ctl)), mapdir),
                      shards=min(core.NPROC, len(js)))
        for j, o in zip(js, outs):
            parts = o.split('\n--\n')
            for k, p in zip(owners[j], parts + ['?missing'] * (len(owners[j]) - len(parts))):
                model[k] = p
    t2 = time.time()
    for k, (kind, what, text) in enumerate(cases):
        st.cases[kind] += 1
        tally_doc(st, kind, impl[k], what + ' text=%r' % text[:1500])
        r = doc_equal(model[k], impl[k])
        if r == 'tol':
            st.tol[kind] += 1
        elif r == 'diff':
            st.disagreement(kind, what + ' text=%r' % text[:4000], model[k], impl[k], show)
    return t1 - t0, t2 - t1


def run_walks(mr, st, name, seqs, show, kind='walk', mapdir=None, chunk=40):
    """seqs: [(start, steps)] on map `name`"""
    dump, m = mapser.impl_mapdump(name, map_path=mapdir)
    impl = []
    if m is None:
        impl = [dump] * len(seqs)
    else:
        for (start, steps) in seqs:
            impl.append(walk_impl.impl_walk(m, start, steps))
    reqs = []
    for i in range(0, len(seqs), chunk):
        reqs.append(walk_impl.walk_request(name, '', 'B', seqs[i:i + chunk]))
    outs = mr.run(reqs, preload=mapser.preload([name], mapdir), shards=min(core.NPROC, len(reqs)))
    model = []
    for j, o in enumerate(outs):
        n = len(seqs[j * chunk:(j + 1) * chunk])
        parts = o.split('\n--\n')
        if o.startswith('!') and len(parts) == 1:
            parts = [o] * n
        model.extend(parts + ['?missing'] * (n - len(parts)))
    for k, (start, steps) in enumerate(seqs):
        st.cases[kind] += 1
        if m is not None:
            tally_walk(st, impl[k])
        else:
            st.dist['map load ' + impl[k]] += 1
        if model[k] != impl[k]:
            st.disagreement(kind, 'map=%s start=%r steps=%r' % (name, start, steps), model[k], impl[k], show)


def main():
    ap = argparse.ArgumentParser()
    ap.add_argument('--seed', type=int, default=1)
    ap.add_argument('--docs', type=int, default=700)
    ap.add_argument('--walks', type=int, default=1200)
    ap.add_argument('--syn', type=int, default=40, help='number of synthetic maps (each: documents + walker sequences)')
    ap.add_argument('--maps', default='quick')
    ap.add_argument('--nocache', action='store_true', help='implementation reloads the maps for every document')
    ap.add_argument('--show', type=int, default=5)
    ap.add_argument('--nobuild', action='store_true')
    a = ap.parse_args()
    t00 = time.time()
    if not a.nobuild:
        core.ensure_makefile()
        rc, out = core.make(['Model/UnitsMap.vo'])
        if rc != 0:
            print(out[-3000:])
            return 2
        ok, log = core.build_driver()
        if not ok:
            print(log[-3000:])
            return 2
    print('build: %.1fs' % (time.time() - t00))
    rng = random.Random(a.seed)
    mr = core.ModelRunner()
    st = Stats()
    names = walk_gen.QUICK_MAPS if a.maps == 'quick' else walk_gen.DOC_MAPS

    # ---- documents
    cases = []
    from pyx12.test.x12testdata import datafiles
    corpus = [(k, v['source']) for k, v in sorted(datafiles.items()) if isinstance(v, dict) and 'source' in v]
    for i in range(a.docs):
        name = names[i % len(names)]
        m = mapsrc.load(name)
        r = rng.random()
        if r < 0.06:
            ck, text = rng.choice(corpus)
            d = (text[105], text[3], text[104])
            segs = [s.lstrip('\r\n') for s in text.split(d[0]) if s.strip('\r\n') != '']
            if rng.random() < 0.7:
                segs, mk = walk_gen.mutate_body(rng, segs, d, m) if rng.random() < 0.6 else walk_gen.mutate_envelope(rng, segs, d)
            else:
                mk = 'asis'
            cases.append(('doc-corpus', 'corpus=%s mut=%s' % (ck, mk), walk_gen.encode_document(rng, segs, d)))
            continue
        if r < 0.12:
            segs, d = walk_gen.mixed_document(rng, names)
            cases.append(('doc-mixed', 'mixed', walk_gen.encode_document(rng, segs, d)))
            continue
        n_st = 2 if rng.random() < 0.1 else 1
        segs, d = walk_gen.map_document(rng, name, n_st=n_st, p_seg=rng.choice([0.1, 0.3, 0.5]), p_loop=rng.choice([0.15, 0.3, 0.5]),
                                        max_segs=rng.choice([40, 80, 120]))
        if name.startswith('278') and rng.random() < 0.3:
            segs, mk = walk_gen.mutate_envelope(rng, segs, d, 'bht_tspc')
            cases.append(('doc-envmut', 'map=%s mut=%s' % (name, mk), walk_gen.encode_document(rng, segs, d)))
        elif r < 0.42:
            cases.append(('doc-map', 'map=%s' % name, walk_gen.encode_document(rng, segs, d)))
        elif r < 0.82:
            kinds = []
            for _ in range(rng.choice([1, 1, 1, 2, 3])):
                segs, mk = walk_gen.mutate_body(rng, segs, d, m)
                kinds.append(mk)
            cases.append(('doc-bodymut', 'map=%s mut=%s' % (name, '+'.join(kinds)), walk_gen.encode_document(rng, segs, d)))
        else:
            kinds = []
            for _ in range(rng.choice([1, 1, 2])):
                segs, mk = walk_gen.mutate_envelope(rng, segs, d)
                kinds.append(mk)
            cases.append(('doc-envmut', 'map=%s mut=%s' % (name, '+'.join(kinds)), walk_gen.encode_document(rng, segs, d)))
    # two parameter settings: charset B/E, external codes excluded or not
    half = len(cases) // 2
    ti = tm = 0.0
    for part, charset, exclude in ((cases[:half], 'E', ''), (cases[half:], 'B', 'states,taxonomy')):
        x, y = run_docs(mr, st, part, charset, exclude, a.show, not a.nocache)
        ti, tm = ti + x, tm + y
    print('documents: %d cases, impl %.1fs, model %.1fs' % (len(cases), ti, tm))

    # ---- direct walker sequences
    t0 = time.time()
    per = max(1, a.walks // len(names))
    for name in names:
        m = mapsrc.load(name)
        refs = walk_gen.refs_ls(m)
        seqs = [walk_gen.walk_sequence(rng, m, refs) for _ in range(per)]
        run_walks(mr, st, name, seqs, a.show)
    print('walker sequences: %d, %.1fs' % (per * len(names), time.time() - t0))

    # ---- synthetic maps
    t0 = time.time()
    if a.syn:
        tmp = tempfile.mkdtemp(prefix='synmaps')
        try:
            syn = walk_gen.write_synthetic_dir(rng, tmp, a.syn)
            dcases = []
            for k, name in enumerate(syn):
                dump, m = mapser.impl_mapdump(name, map_path=tmp)
                if m is None:
                    st.dist['synthetic map load ' + dump] += 1
                    seqs = [((0,), [('~*:', 'ST*SYN*1', 1, 1, None)])]
                    run_walks(mr, st, name, seqs, a.show, 'syn-walk', tmp)
                    continue
                refs = walk_gen.refs_ls(m)
                seqs = [walk_gen.walk_sequence(rng, m, refs) for _ in range(12)]
                run_walks(mr, st, name, seqs, a.show, 'syn-walk', tmp)
                d = ('~', '*', ':')
                for body in (walk_gen.CRAFTED[k][1] if k < len(walk_gen.CRAFTED) else []):
                    segs = [docgen.isa('000000001', d), docgen.seg(d, 'GS', 'SY', 'A', 'B', '20040229', '1230', '1', 'X', 'SYN%d' % k),
                            'ST*SYN*0001'] + body + ['SE*%d*0001' % (len(body) + 2), 'GE*1*1', 'IEA*1*000000001']
                    dcases.append(('syn-doc', 'map=%s crafted' % name, docgen.encode(segs, d)))
                for _ in range(5):
                    try:
                        body = walk_gen.transaction(rng, m, d, '0001', p_seg=0.5, p_loop=0.6)
                    except Exception:  # noqa
                        body = ['ST*SYN*0001', 'SE*2*0001']
                    segs = [docgen.isa('000000001', d), docgen.seg(d, 'GS', 'SY', 'A', 'B', '20040229', '1230', '1', 'X', 'SYN%d' % k)] + \
                        body + ['GE*1*1', 'IEA*1*000000001']
                    if rng.random() < 0.6:
                        segs, mk = walk_gen.mutate_body(rng, segs, d, m)
                    else:
                        mk = 'none'
                    dcases.append(('syn-doc', 'map=%s mut=%s' % (name, mk), docgen.encode(segs, d)))
            x, y = run_docs(mr, st, dcases, 'B', '', a.show, False, mapdir=tmp)
        finally:
            shutil.rmtree(tmp, ignore_errors=True)
        print('synthetic maps: %d maps, %.1fs' % (a.syn, time.time() - t0))

    # ---- report
    print()
    total = sum(st.cases.values())
    bad = sum(st.bad.values())
    for kind in sorted(st.cases):
        print('%-14s cases=%5d disagreements=%d%s' % (kind, st.cases[kind], st.bad[kind],
                                                     (' (trace tail tolerated after an exception inside is_valid: %d)' % st.tol[kind]) if st.tol[kind] else ''))
    print('TOTAL cases=%d disagreements=%d seed=%d wall=%.1fs' % (total, bad, a.seed, time.time() - t00))
    print()
    print('distribution:')
    for k, v in sorted(st.dist.items()):
        print('  %-40s %d' % (k, v))
    print()
    print('first example of each exception escaping x12n_document:')
    for (realm, exn), what in sorted(st.exn_examples.items()):
        print('  [%s] %s: %s' % (realm, exn, what[:900]))
    for (kind, what, d) in st.examples:
        print()
        print('DISAGREEMENT [%s] %s' % (kind, what[:3000]))
        if d:
            print('  first difference at line %d' % d[0])
            print('   model: %s' % d[1][:600])
            print('   impl : %s' % d[2][:600])
    return 1 if bad else 0


if __name__ == '__main__':
    sys.exit(main())
