"""Differential check of the x12context model (coq/Model/Context.v, CtxReader.v) against
pyx12.x12context (X12ContextReader.iter_segments and the X12DataNode API).

usage: ctx_check.py [--seed N] [--iters N] [--scripts N] [--maps quick|all] [--show K] [--nobuild] [--cover]

Generates cases from the seed (harness/ctx_gen.py), runs the implementation (harness/ctx_impl.py) and the
extracted model (units "ctxiter" and "ctxapi"), compares the canonical texts line by line, reports every
disagreement with the first differing line and prints what was covered (document kinds, loop-id kinds, yields,
exceptions per method, sizes).  Last line of the summary: TOTAL ... disagreements=N.

--cover measures line/branch coverage of pyx12/x12context.py under the implementation runs (coverage.py)."""
import argparse
import collections
import os
import random
import sys
import time

import core
import ctx_gen
import ctx_impl
import mapser
import walk_gen


def first_diff(a, b):
    al, bl = a.split('\n'), b.split('\n')
    for i in range(max(len(al), len(bl))):
        x = al[i] if i < len(al) else '<end>'
        y = bl[i] if i < len(bl) else '<end>'
        if x != y:
            return i, x, y
    return None


class Stats(object):
    def __init__(self):
        self.cases = collections.Counter()
        self.bad = collections.Counter()
        self.dist = collections.Counter()
        self.examples = []
        self.exn_examples = {}

    def disagreement(self, kind, what, model, impl, show):
        self.bad[kind] += 1
        if len(self.examples) < show:
            self.examples.append((kind, what, first_diff(model, impl)))


def bucket(n, edges=(0, 1, 5, 20, 50, 100, 200, 400)):
    prev = None
    for e in edges:
        if n <= e:
            return '<=%d' % e
        prev = e
    return '>%d' % prev


CTL = ['x12.control.00401.xml', 'x12.control.00501.xml']


def run_model(mr, unit_reqs, mapdir=None):
    """unit_reqs: [(names tuple, request, n parts)] -> list of lists of parts"""
    by_env = collections.defaultdict(list)
    for j, (names, req, n) in enumerate(unit_reqs):
        by_env[names].append(j)
    res = [None] * len(unit_reqs)
    for names, js in sorted(by_env.items()):
        outs = mr.run([unit_reqs[j][1] for j in js], preload=mapser.preload(sorted(set(list(names) + CTL)), mapdir),
                      shards=min(core.NPROC, len(js)))
        for j, o in zip(js, outs):
            n = unit_reqs[j][2]
            parts = o.split('\n--\n')
            res[j] = parts + ['?missing'] * (n - len(parts))
    return res


def group_requests(cases, loaded, make_req, chunk):
    """group the cases by the set of maps they load; chunks of `chunk` cases per request"""
    groups = collections.defaultdict(list)
    for k in range(len(cases)):
        groups[tuple(sorted(set(loaded[k])))].append(k)
    reqs, owners = [], []
    for names, ks in sorted(groups.items()):
        for i in range(0, len(ks), chunk):
            part = ks[i:i + chunk]
            reqs.append((names, make_req(list(names), part), len(part)))
            owners.append(part)
    return reqs, owners


# ---------------------------------------------------------------- ctxiter

class Prefixed(object):
    """distribution counter that prefixes every key (synthetic-map cases are counted apart)"""

    def __init__(self, st, prefix):
        self.st, self.prefix = st, prefix
        self.dist = self
        self.exn_examples = self

    def __getitem__(self, k):
        return self.st.dist[self.prefix + k]

    def __setitem__(self, k, v):
        self.st.dist[self.prefix + k] = v

    def setdefault(self, k, v):
        return self.st.exn_examples.setdefault((self.prefix.strip() or 'shipped',) + tuple(k), v)


def realm(st, dkind):
    return Prefixed(st, 'synthetic-map ' if dkind == 'syn' else '')


def tally_iter(st, lkind, out, what):
    lines = out.split('\n')
    if lines[-1].startswith('C '):
        lines = lines[:-1]
    last = lines[-1]
    ny = sum(1 for x in lines if x.startswith('Y '))
    nl = sum(1 for x in lines if x == 'Y L')
    st.dist['iter end %s' % last] += 1
    st.dist['iter loop-id kind %s' % lkind] += 1
    st.dist['iter yields %s' % bucket(ny)] += 1
    st.dist['iter trees/doc %s' % bucket(nl, (0, 1, 2, 5, 20))] += 1
    st.dist['iter yielded trees'] += nl
    st.dist['iter yielded plain segments'] += ny - nl
    if last.startswith('!'):
        st.dist['iter %s with loop-id kind %s' % (last, lkind)] += 1
        st.exn_examples.setdefault(('iter', last, lkind), what)
    # sizes of trees; errors attached to plain segments; list-valued parents
    size = 0
    for x in lines:
        if x.startswith('Y '):
            if size:
                st.dist['iter tree size %s' % bucket(size)] += 1
            size = 0
        elif x[:1].isdigit():
            f = x.split(' ')
            if f[0] != '0' or f[1] == 'L':
                size += 1
            if f[0] == '0' and f[1] == 'S':
                if f[4].startswith('L['):
                    st.dist['iter plain segment with a list as parent'] += 1
                for nm, col in (('isa', 10), ('gs', 11), ('st', 12), ('seg', 13)):
                    if len(f) > col and f[col]:
                        st.dist['iter plain segment carrying err_%s' % nm] += 1
    if size:
        st.dist['iter tree size %s' % bucket(size)] += 1


def run_iters(mr, st, cases, show, charset='B', exclude='', mapdir=None):
    """cases: [(dkind, what, text, lkind, loop_id)]"""
    t0 = time.time()
    impl, loaded = [], []
    for (dkind, what, text, lkind, lid) in cases:
        out, ld = ctx_impl.impl_iter(text, lid, charset, exclude, mapdir)
        impl.append(out)
        loaded.append(ld)
    t1 = time.time()
    reqs, owners = group_requests(cases, loaded,
                                  lambda names, part: ctx_impl.iter_request(charset, exclude, names, [(cases[k][4], cases[k][2]) for k in part]), 10)
    model = [None] * len(cases)
    for part, outs in zip(owners, run_model(mr, reqs, mapdir)):
        for k, o in zip(part, outs):
            model[k] = o
    t2 = time.time()
    for k, (dkind, what, text, lkind, lid) in enumerate(cases):
        kind = 'iter:' + dkind
        st.cases[kind] += 1
        tally_iter(realm(st, dkind), lkind, impl[k], '%s loop_id=%r text=%r' % (what, lid, text[:1200]))
        if model[k] != impl[k]:
            st.disagreement(kind, '%s loop_id=%r text=%r' % (what, lid, text[:6000]), model[k], impl[k], show)
    return t1 - t0, t2 - t1


# ---------------------------------------------------------------- ctxapi

def tally_api(st, ops, out, what):
    lines = out.split('\n')
    if len(lines) == 1 and (lines[0] == 'NOITEM' or lines[0].startswith('!')):
        st.dist['api case without node: %s' % lines[0]] += 1
        return
    st.dist['api script length %s' % bucket(len(ops), (0, 5, 10, 20, 40))] += 1
    for o, res in zip(ops, lines):
        name = o[0]
        st.dist['api op %s' % name] += 1
        if res.startswith('!'):
            st.dist['api op %s -> %s' % (name, res)] += 1
            st.exn_examples.setdefault(('api', name, res), what + ' op=%r' % (o,))
        elif ',!' in res or ';!' in res:
            tail = res[res.rfind('!'):]
            st.dist['api op %s -> items then %s' % (name, tail)] += 1
            st.exn_examples.setdefault(('api', name, 'items then ' + tail), what + ' op=%r' % (o,))
        elif name in ('exists', 'delseg', 'delnode'):
            st.dist['api op %s -> %s' % (name, res)] += 1
        elif name in ('get', 'first', 'gfms'):
            st.dist['api op %s -> %s' % (name, 'None' if res == 'N' else 'value')] += 1
        elif name in ('count',):
            st.dist['api op count -> %s' % bucket(int(res), (0, 1, 2, 5))] += 1
        elif name == 'select':
            st.dist['api op select -> %s nodes' % bucket(len([x for x in res.split(',') if x]), (0, 1, 2, 5))] += 1
    tail = lines[len(ops):]
    st.dist['api final registers dumped'] += sum(1 for x in tail if x.startswith('R') and x.endswith(':'))
    st.dist['api final register aliases'] += sum(1 for x in tail if x.startswith('R') and '=@' in x)
    dead = sum(1 for x in tail if x[:1].isdigit() and len(x.split(' ')) > 2 and x.split(' ')[2] == 'F')
    if dead:
        st.dist['api final dumps holding deleted nodes'] += 1
    foreign = 0
    for x in tail:
        if x[:1].isdigit():
            f = x.split(' ')
            if len(f) > 4 and f[4] == 'O?':
                foreign += 1
    if foreign:
        st.dist['api final dumps with a parent outside every register'] += 1
    st.dist['api final dump lines %s' % bucket(len(tail), (0, 20, 50, 100, 200, 400, 1000))] += 1


def run_apis(mr, st, cases, show, charset='B', exclude='', mapdir=None):
    """cases: [(dkind, what, text, lkind, loop_id, index, ops)]"""
    t0 = time.time()
    impl, loaded = [], []
    for (dkind, what, text, lkind, lid, index, ops) in cases:
        out, ld = ctx_impl.impl_api(text, lid, index, ops, charset, exclude, mapdir)
        impl.append(out)
        loaded.append(ld)
    t1 = time.time()
    reqs, owners = group_requests(cases, loaded,
                                  lambda names, part: ctx_impl.api_request(charset, exclude, names,
                                                                           [(cases[k][2], cases[k][4], cases[k][5], cases[k][6]) for k in part]), 8)
    model = [None] * len(cases)
    for part, outs in zip(owners, run_model(mr, reqs, mapdir)):
        for k, o in zip(part, outs):
            model[k] = o
    t2 = time.time()
    for k, (dkind, what, text, lkind, lid, index, ops) in enumerate(cases):
        kind = 'api:' + dkind
        st.cases[kind] += 1
        w = '%s loop_id=%r index=%d' % (what, lid, index)
        tally_api(realm(st, dkind), ops, impl[k], w + ' text=%r' % text[:1500])
        if model[k] != impl[k]:
            d = first_diff(model[k], impl[k])
            extra = ''
            if d and d[0] < len(ops):
                extra = ' FIRST-DIFF-OP=%r' % (ops[d[0]],)
            st.disagreement(kind, w + extra + ' ops=%r text=%r' % (ops, text[:6000]), model[k], impl[k], show)
    return t1 - t0, t2 - t1


# ---------------------------------------------------------------- main

def yields_of(text, lid, mapdir=None):
    """kinds of the nodes yielded by the implementation: list of 'L' / 'S'"""
    out, _ = ctx_impl.impl_iter(text, lid, 'B', '', mapdir)
    return [x[2] for x in out.split('\n') if x.startswith('Y ')]


def main():
    ap = argparse.ArgumentParser()
    ap.add_argument('--seed', type=int, default=1)
    ap.add_argument('--iters', type=int, default=600)
    ap.add_argument('--scripts', type=int, default=1100)
    ap.add_argument('--maps', default='quick')
    ap.add_argument('--syn', type=int, default=12, help='number of synthetic maps (documents, loop ids and scripts on each)')
    ap.add_argument('--show', type=int, default=5)
    ap.add_argument('--nobuild', action='store_true')
    ap.add_argument('--cover', action='store_true')
    a = ap.parse_args()
    t00 = time.time()
    if not a.nobuild:
        core.ensure_makefile()
        rc, out = core.make(['Model/UnitsMap.vo'])
        if rc != 0:
            print(out[-3000:])
            return 2
        ok, log = core.build_driver()
        if not ok:
            print(log[-3000:])
            return 2
    print('build: %.1fs' % (time.time() - t00))
    cov = None
    if a.cover:
        import coverage
        cov = coverage.Coverage(branch=True, include=[os.path.join(core.REPO, 'pyx12', 'x12context.py')], data_file=None)
        cov.start()
    import warnings
    warnings.filterwarnings('ignore')
    rng = random.Random(a.seed)
    mr = core.ModelRunner()
    st = Stats()
    names = walk_gen.QUICK_MAPS if a.maps == 'quick' else walk_gen.DOC_MAPS

    # ---- fixed scripts first
    ccases = [('crafted', what, text, 'crafted', lid, index, ops) for (what, text, lid, index, ops) in ctx_gen.crafted_cases()]
    run_apis(mr, st, ccases, a.show)
    for (what, text, lid, index, ops) in ctx_gen.crafted_cases():
        run_iters(mr, st, [('crafted', what, text, 'crafted', lid)], a.show)

    # ---- iter_segments
    icases = []
    for i in range(a.iters):
        dkind, what, text = ctx_gen.gen_document(rng, names)
        lkind, lid = ctx_gen.pick_loop_id(rng, text)
        icases.append((dkind, what, text, lkind, lid))
        st.dist['iter document kind %s' % dkind] += 1
    cut = len(icases) * 4 // 5
    ti = tm = 0.0
    for part, charset, exclude in ((icases[:cut], 'B', ''), (icases[cut:], 'E', 'states,taxonomy')):
        x, y = run_iters(mr, st, part, a.show, charset, exclude)
        ti, tm = ti + x, tm + y
    print('iter_segments: %d cases, impl %.1fs, model %.1fs' % (len(icases), ti, tm))

    # ---- API scripts: several scripts per document
    acases = []
    tg = time.time()
    while len(acases) < a.scripts:
        dkind, what, text = ctx_gen.gen_document(rng, names)
        for _ in range(rng.choice([1, 2, 3])):
            want_tree = rng.random() < 0.9
            for _try in range(6):
                lkind, lid = ctx_gen.pick_loop_id(rng, text)
                ys = yields_of(text, lid)
                trees = [i for i, k in enumerate(ys) if k == 'L']
                if trees or not want_tree:
                    break
            r = rng.random()
            if trees and r < 0.86:
                index = rng.choice(trees)
            elif ys and r < 0.97:
                index = rng.randrange(len(ys))
            else:
                index = len(ys) + rng.choice([0, 3])
            ops = ctx_gen.gen_script(rng, text, lid, index)
            acases.append((dkind, what, text, lkind, lid, index, ops))
            st.dist['api document kind %s' % dkind] += 1
            st.dist['api register 0 is %s' % ('a tree' if index in trees else 'a plain segment' if index < len(ys) else 'missing')] += 1
    acases = acases[:a.scripts]
    tg = time.time() - tg
    cut = len(acases) * 4 // 5
    ti = tm = 0.0
    for part, charset, exclude in ((acases[:cut], 'B', ''), (acases[cut:], 'E', 'states,taxonomy')):
        x, y = run_apis(mr, st, part, a.show, charset, exclude)
        ti, tm = ti + x, tm + y
    print('API scripts: %d cases, generation %.1fs, impl %.1fs, model %.1fs' % (len(acases), tg, ti, tm))

    # ---- synthetic maps (odd constructs no shipped map has)
    if a.syn:
        import docgen
        import shutil
        import tempfile
        t0 = time.time()
        tmp = tempfile.mkdtemp(prefix='ctxsyn')
        try:
            syn = walk_gen.write_synthetic_dir(rng, tmp, a.syn)
            sic, sac = [], []
            d = ('~', '*', ':')
            for k, name in enumerate(syn):
                dump, m = mapser.impl_mapdump(name, map_path=tmp)
                bodies = list(walk_gen.CRAFTED[k][1]) if k < len(walk_gen.CRAFTED) else []
                if m is not None:
                    for _ in range(4):
                        try:
                            b = walk_gen.transaction(rng, m, d, '0001', p_seg=0.5, p_loop=0.6)[1:-1]
                        except Exception:  # noqa
                            b = []
                        bodies.append(b)
                else:
                    st.dist['synthetic map load ' + dump] += 1
                    bodies.append(['AAA*A'])
                for body in bodies:
                    segs = [docgen.isa('000000001', d), docgen.seg(d, 'GS', 'SY', 'A', 'B', '20040229', '1230', '1', 'X', 'SYN%d' % k),
                            'ST*SYN*0001'] + list(body) + ['SE*%d*0001' % (len(body) + 2), 'GE*1*1', 'IEA*1*000000001']
                    if m is not None and rng.random() < 0.4:
                        segs, mk = walk_gen.mutate_body(rng, segs, d, m)
                    text = docgen.encode(segs, d)
                    for _ in range(3):
                        lkind, lid = ctx_gen.pick_loop_id(rng, text, tmp)
                        sic.append(('syn', 'map=%s' % name, text, lkind, lid))
                        ys = yields_of(text, lid, tmp)
                        trees = [i for i, kk in enumerate(ys) if kk == 'L']
                        index = rng.choice(trees) if trees else (rng.randrange(len(ys)) if ys else 0)
                        ops = ctx_gen.gen_script(rng, text, lid, index, map_path=tmp)
                        sac.append(('syn', 'map=%s' % name, text, lkind, lid, index, ops))
            # a hand-made map: a segment whose qualifying element has no data element definition (get_data_type raises
            # EngineError inside is_match_qual: the `except EngineError` clauses of get_first_matching_segment), a loop
            # without id, a segment directly under the map root
            W = walk_gen
            body = W._loop('L1', 20, 'S', '>1',
                           W._seg('AAA', 10, 'R', '1', [W._ele(1, 'AAA', 'UNDEF', 'R', codes=('A',)), W._ele(2, 'AAA', '2', 'S')]) +
                           W._seg('BBB', 20, 'S', '2', [W._ele(1, 'BBB', '1', 'R', codes=('X', 'Y')), W._ele(2, 'BBB', '2', 'S')]) +
                           W._loop('L2', 30, 'S', '>1', W._seg('CCC', 10, 'R', '1', [W._ele(1, 'CCC', '2', 'S')])))
            with open(os.path.join(tmp, 'synx.xml'), 'w') as f:
                f.write(W.synthetic_map(rng, body=body))
            mx = open(os.path.join(tmp, 'maps.xml')).read()
            with open(os.path.join(tmp, 'maps.xml'), 'w') as f:
                f.write(mx.replace('<map vriic="" fic=""', '<map vriic="SYNX" fic="SY" abbr="s">synx.xml</map>\n    <map vriic="" fic=""'))
            segs = [docgen.isa('000000001', d), docgen.seg(d, 'GS', 'SY', 'A', 'B', '20040229', '1230', '1', 'X', 'SYNX'), 'ST*SYN*0001',
                    'AAA*A*1', 'BBB*X*2', 'BBB*Y*3', 'CCC*4', 'CCC*5', 'AAA*A*6', 'SE*8*0001', 'GE*1*1', 'IEA*1*000000001']
            text = docgen.encode(segs, d)
            O = ctx_impl.op
            xops = [O('get', 0, 'AAA02'), O('get', 0, 'AAA[A]02'), O('set', 0, 'AAA[A]02', 'v'), O('gfms', 0, 'AAA[A]'), O('exists', 0, 'AAA[A]'),
                    O('count', 0, 'AAA[A]'), O('first', 0, 'AAA', 1), O('get', 1, 'AAA[A]02'), O('get', 1, 'AAA02'), O('set', 1, 'AAA[A]02', 'w'),
                    O('gfms', 1, 'AAA[A]02'), O('get', 0, 'BBB[X]02'), O('get', 0, 'BBB[Y]02'), O('get', 0, 'BBB[Z]02'), O('count', 0, 'BBB[Y]'),
                    O('count', 0, 'L2'), O('get', 0, 'L2/CCC01'), O('select', 0, 'L2/CCC', 2, 1), O('get', 2, 'CCC01'), O('get', 0, 'L2/AAA[A]01'),
                    O('addseg', 0, 'S', 'BBB*X*9', 3), O('addseg', 0, 'S', 'AAA*A', 3), O('addloop', 0, 'S', 'CCC*7', 4), O('delseg', 0, 'S', 'BBB*Y*3'),
                    O('copy', 0, 5), O('iterloop', 0)]
            sic.append(('syn', 'map=synx.xml', text, 'occurs', 'L1'))
            sac.append(('syn', 'map=synx.xml', text, 'occurs', 'L1', 3, xops))
            sac.append(('syn', 'map=synx.xml', text, 'occurs', 'L2', 6, xops))
            run_iters(mr, st, sic, a.show, mapdir=tmp)
            run_apis(mr, st, sac, a.show, mapdir=tmp)
        finally:
            shutil.rmtree(tmp, ignore_errors=True)
        print('synthetic maps: %d maps, %.1fs' % (a.syn, time.time() - t0))

    # ---- report
    print()
    total = sum(st.cases.values())
    bad = sum(st.bad.values())
    for kind in sorted(st.cases):
        print('%-18s cases=%5d disagreements=%d' % (kind, st.cases[kind], st.bad[kind]))
    print('ctxiter cases=%d  ctxapi scripts=%d' % (sum(v for k, v in st.cases.items() if k.startswith('iter:')),
                                                   sum(v for k, v in st.cases.items() if k.startswith('api:'))))
    print('TOTAL cases=%d disagreements=%d seed=%d wall=%.1fs' % (total, bad, a.seed, time.time() - t00))
    print()
    print('distribution:')
    for k, v in sorted(st.dist.items()):
        print('  %-62s %d' % (k, v))
    print()
    print('first example of each exception:')
    for key, what in sorted(st.exn_examples.items()):
        print('  %s: %s' % (' '.join(key), what[:700]))
    for (kind, what, d) in st.examples:
        print()
        print('DISAGREEMENT [%s] %s' % (kind, what[:5000]))
        if d:
            print('  first difference at line %d' % d[0])
            print('   model: %s' % d[1][:700])
            print('   impl : %s' % d[2][:700])
    if cov is not None:
        cov.stop()
        print()
        print('coverage of pyx12/x12context.py under this run:')
        try:
            cov.report(show_missing=True, file=sys.stdout)
            an = cov.analysis2(os.path.join(core.REPO, 'pyx12', 'x12context.py'))
            data = cov.get_data()
            fr = cov._analyze(os.path.join(core.REPO, 'pyx12', 'x12context.py'))
            print('missing branches (line -> lines never taken):', dict(fr.missing_branch_arcs()))
        except Exception as e:  # noqa
            print('coverage report failed: %r' % (e,))
    return 1 if bad else 0


if __name__ == '__main__':
    sys.exit(main())
