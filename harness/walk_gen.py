"""Generators for the walker / validation-driver correspondence check.

(a) map_document:  a document derived FROM A MAP by walking the loaded map objects (loops and segments in
    position order, required ones at least once, repeats within the limits, the qualifying element taken
    from the node's code list so that the segment matches its node, other elements filled from the data
    element definition, syntax notes repaired), wrapped in ISA/GS/ST/SE/GE/IEA with correct counts.
(b) mutate_document: structural and value mutations of (a) (docgen.mutate_structure on the envelope, and
    body mutations: delete / duplicate / move / swap / retag / unknown segment / segment over max use /
    loop over repeat / not-used segment / missing required segment / bad qualifier / extra elements /
    truncation / envelope values that select no map, the control map, a non-numeric GE01, a short ISA ...)
(c) walk_sequence: direct walker sequences (start anywhere, arbitrary next segments).
(d) synthetic maps (written to a temporary map directory) for the paths no shipped map reaches.

Segments are texts WITHOUT the terminator, using the separators of the delimiter triple d."""
import os
import random

import docgen
import mapsrc

# map file -> list of (icvn, fic, vriic, tspc) that select it (maps.xml)
_SEL = {}


def selectors():
    if not _SEL:
        import pyx12.map_index
        for a in pyx12.map_index.map_index().maps:
            _SEL.setdefault(a['map_file'], []).append((a['icvn'], a['fic'], a['vriic'], a['tspc']))
    return _SEL


DOC_MAPS = ['837.5010.X222.A1.xml', '834.5010.X220.A1.xml', '835.4010.X091.A1.xml', '270.4010.X092.A1.xml',
            '278.4010.X094.27.A1.xml', '278.4010.X094.A1.xml', '997.4010.xml', '999.5010.xml',
            '837.4010.X098.A1.xml', '835.5010.X221.A1.xml', '271.4010.X092.A1.xml', '276.4010.X093.A1.xml',
            '277.4010.X093.A1.xml', '820.4010.X061.A1.xml', '834.4010.X095.A1.xml', '837.4010.X096.A1.xml',
            '999.5010X231.A1.xml', '277.5010.X214.xml', '820.5010.X218.xml', '837.4010.X097.A1.xml',
            '837Q3.I.5010.X223.A1.xml', '277U.4010.X070.xml']

QUICK_MAPS = DOC_MAPS[:10]


def kids(n):
    return [ch for k in sorted(n.pos_map) for ch in n.pos_map[k]]


def max_use(node):
    try:
        return node.get_max_repeat()
    except Exception:  # noqa
        return 1


# ---------------------------------------------------------------- element values

def de_of(e):
    try:
        return e.root.data_elements.get_by_elem_num(e.data_ele)
    except Exception:  # noqa
        return {'data_type': 'AN', 'min_len': 1, 'max_len': 10}


def value_for(rng, e, fmt=None):
    """a plausible value for an element node"""
    de = de_of(e)
    ty, mn, mx = de['data_type'], de['min_len'], de['max_len']
    codes = [c for c in e.valid_codes if c]
    if codes:
        return rng.choice(codes)
    if e.external_codes:
        ext = e.root.ext_codes.codes.get(e.external_codes)
        if ext and ext['codes']:
            return rng.choice(ext['codes'][:50])
        return 'ZZ'
    if fmt in ('D8', 'DT'):
        return '20040229'
    if fmt == 'RD8':
        return '20040101-20040131'
    if fmt == 'D6':
        return '040229'
    if fmt == 'TM':
        return '1230'
    n = max(mn, 1)
    if ty in ('AN', 'ID', 'B'):
        return ('X%d' % rng.randint(1, 9999))[:max(mx, 1)].ljust(n, 'A')[:max(mx, n)]
    if ty == 'DT':
        return '20040229' if mx >= 8 else '040229'
    if ty == 'TM':
        return '1230'
    if ty == 'R':
        return rng.choice(['1', '12.5', '100', '0.5'])[:max(mx, 1)].rjust(n, '1')
    if ty and ty[0] == 'N':
        return str(rng.randint(1, 9)) * n
    return 'A' * n


def present(v):
    return v != ''


def fix_syntax(rng, node, vals, filler):
    """repair the syntax notes (P R C L E) on the element list"""
    for _ in range(2):
        for syn in node.syntax:
            code, idx = syn[0], [i - 1 for i in syn[1:] if 0 < i <= len(vals)]
            if not idx:
                continue
            have = [i for i in idx if present(vals[i])]
            if code == 'P' and have and len(have) < len(idx):
                for i in idx:
                    if not present(vals[i]):
                        vals[i] = filler(i)
            elif code == 'R' and not have:
                vals[idx[0]] = filler(idx[0])
            elif code == 'C' and present(vals[idx[0]]):
                for i in idx[1:]:
                    if not present(vals[i]):
                        vals[i] = filler(i)
            elif code == 'L' and present(vals[idx[0]]) and not any(present(vals[i]) for i in idx[1:]) and len(idx) > 1:
                vals[idx[1]] = filler(idx[1])
            elif code == 'E' and len(have) > 1:
                for i in have[1:]:
                    vals[i] = ''


def make_segment(rng, node, d, over=None, p_opt=0.3):
    """a segment text matching segment node `node`; over: {element index (1-based): value}"""
    over = over or {}
    fmt = [None]
    type_codes = []

    def one(i, fill=False):
        c = node.children[i]
        if (i + 1) in over:
            return over[i + 1]
        if c.is_composite():
            if c.usage == 'N' or (c.usage == 'S' and not fill and rng.random() > p_opt):
                return ''
            sub = []
            for e in c.children:
                if e.usage == 'R' or (e.usage == 'S' and rng.random() < p_opt):
                    sub.append(value_for(rng, e))
                else:
                    sub.append('')
            while sub and sub[-1] == '':
                sub.pop()
            return d[2].join(sub)
        if c.usage == 'N' or (c.usage == 'S' and not fill and i != 0 and rng.random() > p_opt):
            return ''
        f = None
        if node.id == 'DTP' and i == 2:
            f = fmt[0]
        elif c.data_ele == '1251' and type_codes:
            f = type_codes[-1]
        v = value_for(rng, c, f)
        if node.id == 'DTP' and i == 1:
            fmt[0] = v
        if c.data_ele == '1250':
            type_codes.append(v)
        return v
    vals = [one(i) for i in range(len(node.children))]
    fix_syntax(rng, node, vals, lambda i: one(i, True))
    while vals and vals[-1] == '':
        vals.pop()
    return d[1].join([node.id] + vals)


# ---------------------------------------------------------------- (a) documents from a map

class Body(object):
    def __init__(self, rng, d, p_seg=0.3, p_loop=0.3, p_rep=0.15, max_segs=120, loop_twice=False):
        self.rng, self.d = rng, d
        self.loop_twice = loop_twice      # every (non-wrapper) loop instantiated twice, whatever its repeat limit
        self.p_seg, self.p_loop, self.p_rep, self.max_segs = p_seg, p_loop, p_rep, max_segs
        self.segs = []
        self.hl = 0
        self.lx = 0

    def seg(self, node, hl_parent):
        over = {}
        if node.id == 'HL':
            self.hl += 1
            over[1] = str(self.hl)
            over[2] = '' if hl_parent is None else str(hl_parent)
        elif node.id == 'LX':
            self.lx += 1
            over[1] = str(self.lx)
        elif node.id == 'CLM':
            self.lx = 0
        self.segs.append(make_segment(self.rng, node, self.d, over))

    def loop(self, node, hl_parent, depth):
        rng = self.rng
        my_hl = hl_parent
        for ch in kids(node):
            full = len(self.segs) > self.max_segs
            if ch.usage == 'N':
                continue
            want = ch.usage == 'R' or (not full and rng.random() < (self.p_seg if ch.is_segment() else self.p_loop * (0.8 ** depth)))
            if not want:
                continue
            n = 1
            if not full and max_use(ch) > 1 and rng.random() < self.p_rep:
                n = min(max_use(ch), rng.choice([2, 2, 3]))
            for _ in range(n):
                if ch.is_segment():
                    self.seg(ch, hl_parent)
                    if ch.id == 'HL':
                        my_hl = self.hl
                else:
                    self.loop(ch, my_hl, depth + 1)


def find_loop(m, path):
    n = m
    for p in path:
        n = [c for c in kids(n) if c.id == p][0]
    return n


def transaction(rng, m, d, scn, **kw):
    """ST .. SE for map m"""
    st_loop = find_loop(m, ['ISA_LOOP', 'GS_LOOP', 'ST_LOOP'])
    b = Body(rng, d, **kw)
    for ch in kids(st_loop):
        if ch.is_segment() and ch.id == 'ST':
            b.segs.append(make_segment(rng, ch, d, {2: scn}))
        elif ch.is_segment() and ch.id == 'SE':
            b.segs.append(d[1].join(['SE', str(len(b.segs) + 1), scn]))
        elif ch.usage != 'N' and (ch.usage == 'R' or rng.random() < 0.85):
            if ch.is_loop():
                b.loop(ch, None, 0)
            else:
                b.seg(ch, None)
    return b.segs


def pick_delims(rng):
    return ('~', '*', ':') if rng.random() < 0.8 else rng.choice(docgen.DELIM_SETS[:6])


def map_document(rng, name, d=None, n_isa=1, n_gs=1, n_st=1, **kw):
    """segments of a complete interchange for map file `name`; returns (segs, d)"""
    d = d or pick_delims(rng)
    m = mapsrc.load(name)
    icvn, fic, vriic, _tspc = rng.choice(selectors()[name])
    out = []
    for _i in range(n_isa):
        icn = '%09d' % rng.randint(1, 999999999)
        out.append(docgen.isa(icn, d, icvn))
        for _g in range(n_gs):
            gcn = str(rng.randint(1, 99999))
            out.append(docgen.seg(d, 'GS', fic, 'SENDER', 'RECEIVER', '20040229', '1230', gcn, 'X', vriic))
            for _s in range(n_st):
                out.extend(transaction(rng, m, d, '%04d' % rng.randint(1, 9999), **kw))
            out.append(docgen.seg(d, 'GE', str(n_st), gcn))
        out.append(docgen.seg(d, 'IEA', str(n_gs), icn))
    return out, d


def mixed_document(rng, names, d=None):
    """several interchanges / groups of different maps in one file (map switching)"""
    d = d or pick_delims(rng)
    out = []
    for _ in range(rng.randint(2, 3)):
        segs, _d = map_document(rng, rng.choice(names), d, p_seg=0.15, p_loop=0.15, max_segs=40)
        out.extend(segs)
    if rng.random() < 0.5:
        # several groups inside one interchange: drop the inner IEA/ISA pairs (counts become wrong: fine)
        keep = []
        for i, s in enumerate(out):
            sid = docgen.seg_id_of(s, d)
            if (sid == 'ISA' and i > 0) or (sid == 'IEA' and i < len(out) - 1):
                continue
            keep.append(s)
        out = keep
    return out, d


# ---------------------------------------------------------------- (b) mutations

def seg_nodes(m):
    return [n for n in mapsrc.iter_nodes(m) if not n.is_map_root() and n.is_segment()]


def body_indices(segs, d):
    return [i for i, s in enumerate(segs) if docgen.seg_id_of(s, d) not in docgen.ENVELOPE]


BODY_KINDS = ['delete', 'duplicate', 'over_max', 'loop_over', 'move', 'swap', 'retag', 'unknown', 'not_used',
              'missing_required', 'bad_qual', 'extra_elems', 'blank_elem', 'bad_value', 'truncate', 'lead_space',
              'insert_any', 'trailing_sep']

ENV_KINDS = ['structure', 'structure', 'no_map', 'control_map', 'bad_ge01', 'short_isa', 'bad_counts', 'gs_short',
             'bht_tspc', 'st_id', 'dup_ids', 'unknown_version']


def mutate_body(rng, segs, d, m, kind=None):
    segs = list(segs)
    idx = body_indices(segs, d)
    kind = kind or rng.choice(BODY_KINDS)
    if not idx:
        return segs, kind
    i = rng.choice(idx)
    e = d[1]
    if kind == 'delete':
        del segs[i]
    elif kind == 'duplicate':
        segs.insert(i + 1, segs[i])
    elif kind == 'over_max':
        n = rng.choice([2, 3, 6, 11, 30])
        segs[i:i + 1] = [segs[i]] * n
    elif kind == 'loop_over':
        j = min(len(segs) - 1, i + rng.randint(1, 6))
        run = segs[i:j]
        segs[i:j] = run * rng.choice([2, 3, 5, 12])
    elif kind == 'move':
        s = segs.pop(i)
        segs.insert(rng.choice(idx), s)
    elif kind == 'swap':
        j = rng.choice(idx)
        segs[i], segs[j] = segs[j], segs[i]
    elif kind == 'retag':
        parts = segs[i].split(e)
        parts[0] = rng.choice(['REF', 'NM1', 'DTP', 'HL', 'LX', 'CLM', 'N3', 'N4', 'ZZZ', 'BHT', 'SE', 'ST', 'AK5', 'IK5', 'PER', 'X', 'TOOLONG', ''])
        segs[i] = e.join(parts)
    elif kind == 'unknown':
        segs.insert(i, e.join([rng.choice(['ZZZ', 'QQ', 'A1B']), 'X', '1']))
    elif kind == 'not_used':
        cand = [n for n in seg_nodes(m) if n.usage == 'N']
        if cand:
            n = rng.choice(cand)
            try:
                segs.insert(i, make_segment(rng, n, d, p_opt=0.8))
            except Exception:  # noqa
                pass
        else:
            kind = 'insert_any'
            segs.insert(i, make_segment(rng, rng.choice(seg_nodes(m)), d))
    elif kind == 'missing_required':
        # delete the first segment of a run (usually a loop start, which is required within its loop)
        ids = [docgen.seg_id_of(segs[k], d) for k in idx]
        starts = [k for k, x in zip(idx, ids) if x in ('NM1', 'HL', 'CLM', 'LX', 'BHT', 'INS', 'N1', 'CLP', 'SVC', 'AK2', 'TRN', 'BPR', 'SBR')]
        if starts:
            del segs[rng.choice(starts)]
        else:
            del segs[i]
    elif kind == 'bad_qual':
        parts = segs[i].split(e)
        if len(parts) > 1:
            parts[1] = rng.choice(['ZZ', 'QQQ', '', '0', parts[1] + 'X'])
        segs[i] = e.join(parts)
    elif kind == 'extra_elems':
        segs[i] = segs[i] + e.join([''] + ['X'] * rng.choice([1, 3, 25]))
    elif kind == 'blank_elem':
        parts = segs[i].split(e)
        if len(parts) > 1:
            parts[rng.randint(1, len(parts) - 1)] = ''
        segs[i] = e.join(parts)
    elif kind == 'bad_value':
        parts = segs[i].split(e)
        if len(parts) > 1:
            parts[rng.randint(1, len(parts) - 1)] = rng.choice(['A' * 90, '20041301', '-1.5.5', 'a b ', 'x' + d[2] + 'y' + d[2] + 'z', ' ', '1234567890123456789'])
        segs[i] = e.join(parts)
    elif kind == 'truncate':
        segs = segs[:rng.randint(1, len(segs))]
    elif kind == 'lead_space':
        segs[i] = rng.choice([' ', '  ']) + segs[i]
    elif kind == 'insert_any':
        try:
            segs.insert(i, make_segment(rng, rng.choice(seg_nodes(m)), d))
        except Exception:  # noqa
            pass
    elif kind == 'trailing_sep':
        segs[i] = segs[i] + e * rng.choice([1, 2])
    return segs, kind


def set_elem(s, d, k, v):
    parts = s.split(d[1])
    while len(parts) <= k:
        parts.append('')
    parts[k] = v
    return d[1].join(parts)


def mutate_envelope(rng, segs, d, kind=None):
    segs = list(segs)
    kind = kind or rng.choice(ENV_KINDS)

    def where(sid):
        return [i for i, s in enumerate(segs) if docgen.seg_id_of(s, d) == sid]
    if kind == 'structure':
        segs = docgen.mutate_structure(rng, segs, d)
    elif kind == 'no_map':
        for i in where('GS')[:1]:
            segs[i] = set_elem(segs[i], d, 8, rng.choice(['004010X999', '005010', 'X', '004010X098A1 ']))
    elif kind == 'unknown_version':
        for i in where('GS')[:1]:
            segs[i] = set_elem(segs[i], d, 1, rng.choice(['ZZ', 'HC', 'FA', 'HI']))
    elif kind == 'control_map':
        for i in where('GS')[:1]:
            segs[i] = set_elem(set_elem(segs[i], d, 8, ''), d, 1, '')
    elif kind == 'gs_short':
        for i in where('GS')[:1]:
            segs[i] = d[1].join(segs[i].split(d[1])[:rng.choice([1, 2, 7, 8])])
    elif kind == 'bad_ge01':
        for i in where('GE')[:1]:
            segs[i] = set_elem(segs[i], d, 1, rng.choice(docgen.BAD_COUNTS + ['']))
        if rng.random() < 0.3:
            for i in where('GE')[:1]:
                segs[i] = 'GE'
    elif kind == 'short_isa':
        i = rng.choice(where('ISA')) if where('ISA') else 0
        if i == 0:
            # the first ISA has a fixed width: put an element separator inside a field
            s = segs[0]
            k = rng.randint(10, 90)
            segs[0] = s[:k] + d[1] + s[k + 1:]
        else:
            segs[i] = d[1].join(segs[i].split(d[1])[:rng.randint(2, 15)])
    elif kind == 'bad_counts':
        for sid in ('SE', 'GE', 'IEA'):
            for i in where(sid):
                if rng.random() < 0.5:
                    segs[i] = set_elem(segs[i], d, 1, rng.choice(['0', '1', '2', '99', '']))
    elif kind == 'bht_tspc':
        for i in where('BHT')[:1]:
            segs[i] = set_elem(segs[i], d, 2, rng.choice(['11', '13', '00', 'ZZ', '']))
            if rng.random() < 0.2:
                segs[i] = 'BHT' + d[1] + '0078'
    elif kind == 'st_id':
        for i in where('ST')[:1]:
            segs[i] = set_elem(segs[i], d, 1, rng.choice(['999', '837', '', 'XXX']))
    elif kind == 'dup_ids':
        for sid, k in (('ST', 2), ('GS', 6)):
            w = where(sid)
            if len(w) > 1:
                v = segs[w[0]].split(d[1])
                if len(v) > k:
                    segs[w[1]] = set_elem(segs[w[1]], d, k, v[k])
    return segs, kind


def encode_document(rng, segs, d):
    conv = rng.choice(['', '', '', '\n', '\r\n']) if d[0] not in '\n\r' else ''
    text = docgen.encode(segs, d, conv)
    if rng.random() < 0.03:
        text = text[:rng.randint(0, len(text))]
    return text


# ---------------------------------------------------------------- (c) direct walker sequences

def refs_ls(m):
    import mapser
    return [(r, n) for r, n in mapser.node_refs(m) if n.is_loop() or n.is_segment()]


def walk_sequence(rng, m, refs, length=None):
    """(start ref, steps); steps = [(delims, text, seg_count, cur_line, ls_id)]"""
    d = ('~', '*', ':') if rng.random() < 0.9 else rng.choice(docgen.DELIM_SETS[1:6])
    segnodes = [(r, n) for r, n in refs if n.is_segment()]
    r0 = rng.random()
    if r0 < 0.03:
        start, cur = (), None
    elif r0 < 0.25:
        start, cur = rng.choice([(r, n) for r, n in refs if n.is_loop()])
    else:
        start, cur = rng.choice(segnodes)
    steps = []
    sc, cl = rng.randint(0, 50), rng.randint(1, 200)
    byref = dict(refs)
    for _ in range(length or rng.randint(1, 7)):
        r1 = rng.random()
        tgt = None
        if cur is not None and r1 < 0.55:
            # somewhere close: a later sibling, a child of a sibling loop, or a sibling of an ancestor
            par = cur.parent if not cur.is_map_root() else cur
            near = []
            p = par
            for _up in range(3):
                if p is None:
                    break
                for ch in kids(p):
                    if ch.is_segment():
                        near.append(ch)
                    else:
                        first = kids(ch)[:2]
                        near.extend(x for x in first if x.is_segment())
                p = getattr(p, 'parent', None)
            if near:
                tgt = rng.choice(near)
        if tgt is None and r1 < 0.9:
            tgt = rng.choice(segnodes)[1]
        if tgt is None:
            text = rng.choice(['ZZZ*1', 'HL*1**20*1', 'HL*2*1*22*0', 'HL', 'REF*ZZ*1', 'NM1*ZZ*1', 'SE*1*1', 'ST*837*1', 'GE*1*1',
                               'IEA*1*1', 'ISA*00', 'GS*HC', 'LX*1', 'TA1*1', 'X', '']).replace('*', d[1])
        else:
            try:
                text = make_segment(rng, tgt, d, p_opt=0.2)
            except Exception:  # noqa
                text = tgt.id
            if rng.random() < 0.1:
                parts = text.split(d[1])
                if len(parts) > 1:
                    parts[1] = rng.choice(['ZZ', '', parts[1]])
                text = d[1].join(parts)
            cur = tgt
        sc += rng.choice([0, 1, 1, 1])
        cl += 1
        steps.append((''.join(d), text, sc if rng.random() > 0.02 else -1, cl, None if rng.random() < 0.9 else 'LS1'))
    return start, steps


# ---------------------------------------------------------------- (d) synthetic maps

SYN_DATAELE = '''<data_ele ele_num="SY1" data_type="ID" min_len="1" max_len="3" name="Code"/>
<data_ele ele_num="SY2" data_type="AN" min_len="1" max_len="10" name="Text"/>
<data_ele ele_num="SY3" data_type="N0" min_len="1" max_len="6" name="Number"/>
'''

SYN_CODES = '''<?xml version="1.0"?>
<codes><codeset><id>ext1</id><name>n</name><data_ele>1</data_ele><version><code>E1</code><code>E2</code></version></codeset></codes>
'''


def _ele(seq, xid, de='2', usage='S', codes=(), attrs='', external=None):
    vc = ''
    if codes or external:
        vc = '<valid_codes%s>' % (' external="%s"' % external if external else '') + \
            ''.join('<code>%s</code>' % c for c in codes) + '</valid_codes>'
    de = {'1': 'SY1', '2': 'SY2', '3': 'SY3'}.get(de, de)
    return '<element xid="%s%02d" %s><data_ele>%s</data_ele><name>e%d</name><usage>%s</usage><seq>%d</seq>%s</element>' % (
        xid, seq, attrs, de, seq, usage, seq, vc)


def _seg(xid, pos, usage='R', max_use='1', eles=None, name='nm', noname=False, extra=''):
    body = ''.join(eles if eles is not None else [_ele(1, xid, '2', 'S')])
    nm = '' if noname else '<name>%s %s</name>' % (xid, name)
    us = '' if usage is None else '<usage>%s</usage>' % usage
    mu = '' if max_use is None else '<max_use>%s</max_use>' % max_use
    return '<segment xid="%s">%s%s<pos>%d</pos>%s%s%s</segment>' % (xid, nm, us, pos, mu, extra, body)


def _loop(xid, pos, usage, repeat, body, name=True):
    nm = '<name>loop %s</name>' % xid if name else ''
    us = '' if usage is None else '<usage>%s</usage>' % usage
    rp = '' if repeat is None else '<repeat>%s</repeat>' % repeat
    xa = '' if xid is None else ' xid="%s"' % xid
    return '<loop%s>%s%s<pos>%d</pos>%s%s</loop>' % (xa, nm, us, pos, rp, body)


def _isa_seg(icvn):
    des = ['I01', 'I02', 'I01', 'I02', 'I05', 'I06', 'I05', 'I06', 'I08', 'I09', 'I10', 'I11', 'I12', 'I13', 'I14', 'I15']
    eles = []
    for i, de in enumerate(des):
        eles.append(_ele(i + 1, 'ISA', de, 'R', codes=(icvn,) if i == 11 else ()))
    return _seg('ISA', 10, 'R', '1', eles)


def synthetic_body(rng):
    """ST_LOOP children XML with odd constructs, at random"""
    parts = []
    pos = 20
    nloops = rng.randint(1, 5)
    ids = ['L1', 'L2', 'L3', 'L1', 'SYN', 'NM1', '10', 'ST']     # duplicates, the map id, a segment-like id, a digit pair
    segids = ['AAA', 'BBB', 'CCC', 'AAA', 'REF', 'HL', 'DTP']

    def rand_seg(p, depth):
        sid = rng.choice(segids)
        usage = rng.choice(['R', 'S', 'S', 'N', 'R', None, 'X']) if rng.random() < 0.25 else rng.choice(['R', 'S', 'S', 'N'])
        mu = rng.choice(['1', '1', '2', '>1', None, 'abc', '0']) if rng.random() < 0.3 else rng.choice(['1', '2', '>1'])
        r = rng.random()
        if r < 0.08:
            eles = []                                    # a segment without children
        elif r < 0.11:
            eles = [_ele(1, sid, 'UNDEF', 'R', codes=('A',)), _ele(2, sid, '2', 'S')]      # data element not defined
        elif r < 0.16:
            # an external code set that does not exist (EngineError inside is_valid), or one that does
            eles = [_ele(1, sid, '2', 'S'), _ele(2, sid, '1', 'S', external=rng.choice(['nosuch', 'states']))]
        elif r < 0.5:
            eles = [_ele(1, sid, '1', rng.choice(['R', 'S']), codes=rng.choice([('A',), ('B',), ('A', 'B'), ('C',)])), _ele(2, sid, '2', 'S')]
        elif sid == 'HL':
            eles = [_ele(1, sid, '3', 'R'), _ele(2, sid, '3', 'S'), _ele(3, sid, '1', 'R', codes=rng.choice([('20',), ('22',), ('20', '22')]))]
        else:
            eles = [_ele(1, sid, '2', 'S'), _ele(2, sid, '2', 'S')]
        return _seg(sid, p, usage, mu, eles, noname=rng.random() < 0.05)

    def rand_loop(p, depth):
        lid = rng.choice(ids) if rng.random() < 0.9 else None
        usage = rng.choice(['R', 'S', 'N', None, 'Q']) if rng.random() < 0.2 else rng.choice(['R', 'S', 'S', 'N'])
        rep = rng.choice(['1', '2', '>1', '&amp;gt;1', None, 'xyz', '0']) if rng.random() < 0.3 else rng.choice(['1', '2', '>1'])
        body = []
        q = 10
        same_pos = rng.random() < 0.25
        n = rng.choice([0, 1, 2, 3, 3, 4]) if rng.random() < 0.2 else rng.randint(1, 4)
        first_loop = depth < 2 and rng.random() < 0.2
        for k in range(n):
            if (k == 0 and first_loop) or (k > 0 and depth < 2 and rng.random() < 0.3):
                body.append(rand_loop(q, depth + 1))
            else:
                body.append(rand_seg(q, depth))
            q += 0 if same_pos else rng.choice([0, 10, 10, 10])
        return _loop(lid, p, usage, rep, ''.join(body), name=rng.random() > 0.05)
    for _ in range(nloops):
        if rng.random() < 0.25:
            parts.append(rand_seg(pos, 0))
        else:
            parts.append(rand_loop(pos, 0))
        pos += rng.choice([0, 10, 10])
    return ''.join(parts)


def _crafted():
    """hand-made ST_LOOP bodies for paths the random maps rarely reach, each with transaction bodies"""
    A = lambda pos, usage='R', mu='1': _seg('AAA', pos, usage, mu, [_ele(1, 'AAA', '1', 'R', codes=('A',)), _ele(2, 'AAA', '2', 'S')])
    B = lambda pos, usage='R', mu='1': _seg('BBB', pos, usage, mu, [_ele(1, 'BBB', '2', 'S')])
    C = lambda pos, usage='S', mu='2': _seg('CCC', pos, usage, mu, [_ele(1, 'CCC', '2', 'S')])
    out = []
    # 1: a segment id that is both a later sibling and the first segment of an earlier sibling loop:
    #    from inside L3 the sibling AAA matches, _is_loop_match(L1) is true through L2 (walk line 151 false branch)
    out.append((_loop('L1', 20, 'R', '>1', _loop('L2', 10, 'S', '>1', A(10) + C(20)) + _loop('L3', 15, 'S', '>1', B(10)) + A(20, 'S')),
                [['AAA*A', 'BBB*X', 'AAA*A', 'CCC*1'], ['AAA*A', 'CCC*1', 'CCC*2', 'CCC*3', 'BBB*X', 'BBB*Y', 'AAA*A', 'AAA*A'],
                 ['BBB*X', 'AAA*A', 'AAA*A']]))
    # 2: two loops with the same id under the same parent (node equality is id + parent id), a loop whose id is the map id
    out.append((_loop('L1', 20, 'S', '1', A(10) + B(20, 'S')) + _loop('L1', 30, 'S', '2', C(10, 'R', '1') + A(20, 'S')) +
                _loop('SYN', 40, 'S', '1', B(10)),
                [['AAA*A', 'BBB*1', 'CCC*1', 'AAA*A', 'CCC*2', 'CCC*3', 'BBB*2'], ['CCC*1', 'CCC*1', 'CCC*1', 'BBB*1', 'BBB*2'],
                 ['BBB*1', 'AAA*A', 'AAA*A', 'CCC*1']]))
    # 3: required loops and segments missed, not-used loop and segment, nested first loops
    out.append((_loop('L1', 20, 'R', '1', _loop('L2', 10, 'R', '1', A(10) + B(20)) + C(30, 'R')) + _loop('L4', 30, 'N', '1', B(10)) +
                _seg('DDD', 40, 'N', '1', [_ele(1, 'DDD', '2', 'S')]) + _loop('L5', 50, 'R', '2', C(10, 'R', '1') + B(20, 'R')),
                [['AAA*A', 'BBB*1', 'CCC*1', 'CCC*2', 'BBB*9'], ['CCC*1', 'BBB*1', 'DDD*1', 'CCC*2', 'CCC*3', 'BBB*1', 'CCC*4', 'BBB*1'],
                 ['BBB*1', 'DDD*1'], ['AAA*A', 'AAA*A', 'BBB*1', 'BBB*2', 'CCC*1', 'BBB*3', 'CCC*2', 'BBB*1']]))
    return out


CRAFTED = _crafted()


def synthetic_map(rng, icvn='00401', body=None):
    """XML text of a small map with odd constructs"""
    st = _seg('ST', 10, 'R', '1', [_ele(1, 'ST', '1', 'R', codes=('SYN',)), _ele(2, 'ST', '2', 'R')])
    se = _seg('SE', 900, 'R', '1', [_ele(1, 'SE', '3', 'R'), _ele(2, 'SE', '2', 'R')])
    gs = _seg('GS', 10, 'R', '1', [_ele(i, 'GS', '2', 'S') for i in range(1, 9)])
    ge = _seg('GE', 30, 'R', '1', [_ele(1, 'GE', '3', 'R'), _ele(2, 'GE', '2', 'R')])
    iea = _seg('IEA', 30, 'R', '1', [_ele(1, 'IEA', '3', 'R'), _ele(2, 'IEA', '2', 'R')])
    st_loop = _loop('ST_LOOP', 20, 'R', '>1', st + (synthetic_body(rng) if body is None else body) + se)
    gs_loop = _loop('GS_LOOP', 20, 'R', '>1', gs + st_loop + ge)
    top = ''
    if body is None and rng.random() < 0.15:
        top = _seg('TOP', 90, rng.choice(['S', 'R']), '1')             # a segment directly under the root
    return '<?xml version="1.0"?>\n<transaction xid="SYN"><name>synthetic</name>' + \
        _loop('ISA_LOOP', 10, 'R', '>1', _isa_seg(icvn) + gs_loop + iea) + top + '</transaction>\n'


SYN_MAPS_XML = '''<?xml version="1.0"?>
<maps>
  <version icvn="00401">
    %s
    <map vriic="" fic="" abbr="X12">x12.control.00401.xml</map>
  </version>
</maps>
'''


def write_synthetic_dir(rng, path, n):
    """a map directory with n synthetic maps syn<k>.xml selected by GS01=SY, GS08=SYN<k>; the first
    len(CRAFTED) are the hand-made ones"""
    import shutil
    import core
    os.makedirs(path, exist_ok=True)
    src = os.path.join(core.REPO, 'pyx12', 'map')
    for f in ('x12.control.00401.xml', 'x12.control.00501.xml'):
        shutil.copy(os.path.join(src, f), os.path.join(path, f))
    with open(os.path.join(path, 'dataele.xml'), 'w') as f:
        # the control maps need the real data elements
        real = open(os.path.join(src, 'dataele.xml')).read()
        f.write(real.replace('</data_elements>', SYN_DATAELE + '</data_elements>'))
    with open(os.path.join(path, 'codes.xml'), 'w') as f:
        f.write(open(os.path.join(src, 'codes.xml')).read())
    entries = []
    names = []
    for k in range(n):
        name = 'syn%d.xml' % k
        with open(os.path.join(path, name), 'w') as f:
            f.write(synthetic_map(rng, body=CRAFTED[k][0] if k < len(CRAFTED) else None))
        entries.append('<map vriic="SYN%d" fic="SY" abbr="s">%s</map>' % (k, name))
        names.append(name)
    with open(os.path.join(path, 'maps.xml'), 'w') as f:
        f.write(SYN_MAPS_XML % '\n    '.join(entries))
    return names
