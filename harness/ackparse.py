"""Parse a 997 / 999 text (fixed delimiters ~ * :) into a small tree, and recount it independently."""


def segments(text):
    out = []
    for piece in text.split('~'):
        p = piece.lstrip('\r\n')
        if p.strip() == '':
            continue
        out.append(p.split('*'))
    return out


class Ack(object):
    def __init__(self, text):
        self.text = text
        self.segs = segments(text)
        self.problems = []          # structural problems of the acknowledgement itself (C06)
        self.groups = []            # [{'ak1': [...], 'sets': [{'ak2': [...], 'items': [...], 'ak5': [...]}], 'ak9': [...]}]
        self.isa = self.gs = self.ta1 = None
        self._parse()

    def _parse(self):
        s = self.segs
        ids = [x[0] for x in s]
        if not s:
            return
        if ids[0] != 'ISA':
            self.problems.append('does not start with ISA')
            return
        self.isa = s[0]
        if len(self.isa) != 17:
            self.problems.append('ISA has %d elements' % (len(self.isa) - 1))
        if ids.count('ISA') != 1 or ids.count('IEA') != 1 or ids[-1] != 'IEA':
            self.problems.append('ISA/IEA: %d ISA, %d IEA, last segment %s' % (ids.count('ISA'), ids.count('IEA'), ids[-1]))
        if ids.count('GS') != 1 or ids.count('GE') != 1:
            self.problems.append('GS/GE: %d GS, %d GE' % (ids.count('GS'), ids.count('GE')))
        gs = [x for x in s if x[0] == 'GS']
        self.gs = gs[0] if gs else None
        ge = [x for x in s if x[0] == 'GE']
        iea = [x for x in s if x[0] == 'IEA']
        ta1 = [x for x in s if x[0] == 'TA1']
        self.ta1 = ta1[0] if ta1 else None
        # transaction sets
        cur = None
        n_sets = 0
        st_ids = []
        for x in s:
            if x[0] == 'ST':
                if cur is not None:
                    self.problems.append('ST inside an open set')
                cur = [x]
                n_sets += 1
                st_ids.append(x[2] if len(x) > 2 else None)
            elif x[0] == 'SE':
                if cur is None:
                    self.problems.append('SE without ST')
                    continue
                cur.append(x)
                if len(x) < 3 or x[1] != str(len(cur)):
                    self.problems.append('SE count %s but %d segments in the set' % (x[1] if len(x) > 1 else None, len(cur)))
                if len(x) < 3 or len(cur[0]) < 3 or x[2] != cur[0][2]:
                    self.problems.append('SE02 %s != ST02 %s' % (x[2] if len(x) > 2 else None, cur[0][2] if len(cur[0]) > 2 else None))
                self._set(cur)
                cur = None
            elif cur is not None:
                cur.append(x)
        if cur is not None:
            self.problems.append('set not closed')
        if len(set(st_ids)) != len(st_ids):
            self.problems.append('set control numbers not unique: %r' % st_ids)
        if ge and self.gs:
            if len(ge[0]) < 3 or ge[0][1] != str(n_sets):
                self.problems.append('GE01 %s but %d sets' % (ge[0][1] if len(ge[0]) > 1 else None, n_sets))
            if len(ge[0]) < 3 or len(self.gs) < 7 or ge[0][2] != self.gs[6]:
                self.problems.append('GE02 != GS06')
        if iea and self.isa and len(self.isa) == 17:
            if len(iea[0]) < 3 or iea[0][1] != '1':
                self.problems.append('IEA01 %s but 1 group' % (iea[0][1] if len(iea[0]) > 1 else None))
            if len(iea[0]) < 3 or iea[0][2] != self.isa[13]:
                self.problems.append('IEA02 != ISA13')

    def _set(self, segs):
        g = {'ak1': None, 'sets': [], 'ak9': None}
        cur = None
        for x in segs[1:-1]:
            if x[0] == 'AK1':
                g['ak1'] = x
            elif x[0] == 'AK2':
                cur = {'ak2': x, 'items': [], 'ak5': None}
                g['sets'].append(cur)
            elif x[0] in ('AK3', 'AK4', 'IK3', 'IK4', 'CTX'):
                if cur is None:
                    self.problems.append('%s outside AK2' % x[0])
                else:
                    cur['items'].append(x)
            elif x[0] in ('AK5', 'IK5'):
                if cur is None:
                    self.problems.append('%s outside AK2' % x[0])
                else:
                    cur['ak5'] = x
                    cur = None
            elif x[0] == 'AK9':
                g['ak9'] = x
            else:
                self.problems.append('unexpected segment %s in the acknowledgement set' % x[0])
        if g['ak1'] is None:
            self.problems.append('set without AK1')
        if g['ak9'] is None:
            self.problems.append('set without AK9')
        for t in g['sets']:
            if t['ak5'] is None:
                self.problems.append('AK2 without AK5/IK5')
        self.groups.append(g)
