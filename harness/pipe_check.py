"""Differential check of the whole-document model (coq/Model/Pipeline.v, unit "pipeline") against the real
pyx12.x12n_document.x12n_document run with io.StringIO sinks (harness/pipe_impl.py).

usage: pipe_check.py [--seed N] [--docs N] [--syn N] [--masks K] [--maps quick|all] [--nocache] [--show K] [--nobuild]

Documents come from harness/pipe_gen.py; every document is run under K distinct sink subsets (all 8 for one in
twenty), in settings groups that fix charset (B / E), exclude_external_codes, the clock, the header time and the DTD.
The canonical texts (verdict or escaping exception, hex of what each sink holds) must be equal.
Prints the distributions (kinds, sink masks, verdicts, escaping exceptions with the place they came through,
exceptions swallowed around the 997 / 999 visitor, kind of acknowledgement, sizes) and `TOTAL disagreements=N`."""
import argparse
import collections
import random
import shutil
import sys
import tempfile
import time

import core
import mapser
import pipe_gen
import pipe_impl
import walk_gen

CTL = ['x12.control.00401.xml', 'x12.control.00501.xml']


def repo_head():
    rc, out = core.sh(['git', '-C', core.REPO, 'rev-parse', '--short', 'HEAD'])
    return out.strip() if rc == 0 else '?'


def bucket(n):
    if n == 0:
        return '0'
    for lim in (100, 1000, 10000, 100000):
        if n < lim:
            return '<%d' % lim
    return '>=100000'


def first_diff(model, impl):
    ml, il = model.split('\n'), impl.split('\n')
    for i in range(max(len(ml), len(il))):
        x = ml[i] if i < len(ml) else '<end>'
        y = il[i] if i < len(il) else '<end>'
        if x != y:
            if x[:2] == y[:2] and x[:2] in ('A:', 'H:', 'X:'):
                try:
                    xs = bytes.fromhex(x[2:]).decode('latin-1')
                    ys = bytes.fromhex(y[2:]).decode('latin-1')
                except ValueError:
                    return 'line %s\n   model: %s\n   impl : %s' % (x[:2], x[:300], y[:300])
                k = next((j for j in range(min(len(xs), len(ys))) if xs[j] != ys[j]), min(len(xs), len(ys)))
                return 'sink %s differs at offset %d (model %d chars, impl %d chars)\n   model: %r\n   impl : %r' % (
                    x[:1], k, len(xs), len(ys), xs[max(0, k - 160):k + 160], ys[max(0, k - 160):k + 160])
            return 'line %d\n   model: %s\n   impl : %s' % (i, x[:300], y[:300])
    return 'equal'


class Stats(object):
    def __init__(self):
        self.cases = collections.Counter()
        self.bad = collections.Counter()
        self.dist = collections.Counter()
        self.examples = []
        self.exn_examples = {}
        self.swallow_examples = {}


def ack_kind(info, mask):
    if mask[0] != 'A':
        return 'not requested'
    a = info['ack']
    if a == '':
        return 'requested, nothing written'
    k = '999' if 'ST*999*' in a else ('997' if 'ST*997*' in a else 'no ST')
    if not a.rstrip('\n').endswith('~') or 'IEA*' not in a:
        return k + ' incomplete (visitor raised)'
    return k


def tally(st, kind, mask, info, text):
    realm = 'syn ' if kind == 'syn' else ''
    st.dist['mask %s' % mask] += 1
    st.dist['%sresult %s' % (realm, info['last'])] += 1
    st.dist['mask %s result %s' % (mask, info['last'][:2] if info['last'].startswith('V') else 'exception')] += 1
    if info['exn']:
        key = '%sescapes: %s via %s' % (realm, info['last'], info['where'])
        st.dist[key] += 1
        old = st.exn_examples.get(key)
        if old is None or len(text) < len(old[1]):
            st.exn_examples[key] = (mask, text, info['exn'])
    for s in info['swallowed']:
        key = '%sswallowed: %s' % (realm, s)
        st.dist[key] += 1
        old = st.swallow_examples.get(key)
        if old is None or len(text) < len(old[1]):
            st.swallow_examples[key] = (mask, text)
    st.dist['ack: ' + ack_kind(info, mask)] += 1
    st.dist['version: ' + ('5010' if text[84:89] == '00501' else ('4010' if text[84:89] == '00401' else 'other'))] += 1
    if mask[0] == 'A':
        st.dist['size ack ' + bucket(len(info['ack']))] += 1
    if mask[1] == 'H':
        st.dist['size html ' + bucket(len(info['html']))] += 1
    if mask[2] == 'X':
        st.dist['size xml ' + bucket(len(info['xml']))] += 1


def run_group(mr, st, runs, setting, show, cache, mapdir=None, chunk=10):
    """runs: [(kind, what, mask, text)] under one setting = (charset, exclude, clock, htime, dtd)"""
    charset, exclude, clock, htime, dtd = setting
    t0 = time.time()
    impl, infos = [], []
    groups = collections.defaultdict(list)
    for k, (kind, what, mask, text) in enumerate(runs):
        out, loaded, info = pipe_impl.impl_pipeline(text, mask, charset, exclude, clock, htime, dtd,
                                                    cache_maps=cache, map_path=mapdir)
        impl.append(out)
        infos.append(info)
        groups[tuple(sorted(set(loaded)))].append(k)
    t1 = time.time()
    model = [None] * len(runs)
    for names, ks in sorted(groups.items()):
        reqs, owners = [], []
        for i in range(0, len(ks), chunk):
            part = ks[i:i + chunk]
            reqs.append(pipe_impl.pipeline_request(charset, exclude, list(names), clock, htime, dtd,
                                                   [(runs[k][2], runs[k][3]) for k in part]))
            owners.append(part)
        outs = mr.run(reqs, preload=mapser.preload(sorted(set(list(names) + CTL)), mapdir),
                      shards=min(core.NPROC, len(reqs)))
        for part, o in zip(owners, outs):
            parts = o.split('\n--\n')
            for k, p in zip(part, parts + ['?missing'] * (len(part) - len(parts))):
                model[k] = p
    t2 = time.time()
    for k, (kind, what, mask, text) in enumerate(runs):
        st.cases[kind] += 1
        tally(st, kind, mask, infos[k], text)
        if model[k] != impl[k]:
            st.bad[kind] += 1
            if len(st.examples) < show:
                st.examples.append((kind, 'mask=%s setting=%r %s text=%r' % (mask, setting, what, text[:3000]),
                                    first_diff(model[k], impl[k])))
    return t1 - t0, t2 - t1


def with_masks(rng, cases, k):
    runs = []
    for (kind, what, text) in cases:
        masks = pipe_impl.MASKS if rng.random() < 0.05 else rng.sample(pipe_impl.MASKS, k)
        if kind == 'multiisa' and not any(m[1] == 'H' for m in masks):
            masks = list(masks[:-1]) + [rng.choice(['-H-', 'AH-', '-HX', 'AHX'])]      # the HTML sink is always on
        for m in masks:
            runs.append((kind, what, m, text))
    return runs


def main():
    ap = argparse.ArgumentParser()
    ap.add_argument('--seed', type=int, default=1)
    ap.add_argument('--docs', type=int, default=520, help='documents on the shipped maps (each run under --masks sink subsets)')
    ap.add_argument('--syn', type=int, default=14, help='number of synthetic maps')
    ap.add_argument('--masks', type=int, default=3)
    ap.add_argument('--maps', default='quick')
    ap.add_argument('--nocache', action='store_true', help='implementation reloads the maps for every document')
    ap.add_argument('--show', type=int, default=6)
    ap.add_argument('--nobuild', action='store_true')
    a = ap.parse_args()
    t00 = time.time()
    if not a.nobuild:
        core.ensure_makefile()
        rc, out = core.make(['Model/UnitsMap.vo'])
        if rc != 0:
            print(out[-3000:])
            return 2
        ok, log = core.build_driver()
        if not ok:
            print(log[-3000:])
            return 2
    print('build: %.1fs' % (time.time() - t00))
    head0 = repo_head()
    print('implementation: %s at %s' % (core.REPO, head0))
    rng = random.Random(a.seed)
    mr = core.ModelRunner()
    st = Stats()
    names = walk_gen.QUICK_MAPS if a.maps == 'quick' else walk_gen.DOC_MAPS

    cases = pipe_gen.gen_documents(rng, a.docs, names)
    runs = with_masks(rng, cases, a.masks)
    # settings groups: charset B / E, external codes excluded or not, clock, header time, DTD
    settings = []
    for g in range(6):
        settings.append((('B', 'E')[g % 2], ('', 'states,taxonomy', '')[g % 3], pipe_gen.gen_clock(rng),
                         pipe_gen.gen_htime(rng), pipe_gen.gen_dtd(rng)))
    by_setting = collections.defaultdict(list)
    for j, run in enumerate(runs):
        # all runs of one document share its setting
        by_setting[(sum(map(ord, run[3][:200])) + len(run[3])) % len(settings)].append(run)
    ti = tm = 0.0
    for g in sorted(by_setting):
        st.dist['charset ' + settings[g][0]] += len(by_setting[g])
        x, y = run_group(mr, st, by_setting[g], settings[g], a.show, not a.nocache)
        ti, tm = ti + x, tm + y
    print('shipped maps: %d documents, %d runs, impl %.1fs, model %.1fs' % (len(cases), len(runs), ti, tm))
    n_docs = len(cases)

    if a.syn:
        t0 = time.time()
        tmp = tempfile.mkdtemp(prefix='pipe_synmaps_')
        try:
            _names, scases = pipe_gen.gen_synthetic(rng, tmp, a.syn)
            sruns = with_masks(rng, scases, a.masks)
            setting = ('B', '', pipe_gen.gen_clock(rng), '', '')
            st.dist['charset B'] += len(sruns)
            run_group(mr, st, sruns, setting, a.show, False, mapdir=tmp)
            n_docs += len(scases)
        finally:
            shutil.rmtree(tmp, ignore_errors=True)
        print('synthetic maps: %d maps, %d documents, %d runs, %.1fs' % (a.syn, len(scases), len(sruns), time.time() - t0))

    print()
    total = sum(st.cases.values())
    bad = sum(st.bad.values())
    for kind in sorted(st.cases):
        print('%-10s runs=%5d disagreements=%d' % (kind, st.cases[kind], st.bad[kind]))
    print('TOTAL runs=%d documents=%d disagreements=%d seed=%d wall=%.1fs' % (total, n_docs, bad, a.seed, time.time() - t00))
    head1 = repo_head()
    if head1 != head0:
        print('NOTE: %s moved from %s to %s during the run (the modules were imported at the start)' % (core.REPO, head0, head1))
    print()
    print('distribution:')
    for k, v in sorted(st.dist.items()):
        print('  %-90s %d' % (k, v))
    print()
    print('shortest example of each exception escaping x12n_document:')
    for key, (mask, text, exn) in sorted(st.exn_examples.items()):
        print('  [%s] mask=%s %s\n      text=%r' % (key, mask, exn, text[:700]))
    print()
    print('shortest example of each exception swallowed around the visitor:')
    for key, (mask, text) in sorted(st.swallow_examples.items()):
        print('  [%s] mask=%s\n      text=%r' % (key, mask, text[:700]))
    for (kind, what, d) in st.examples:
        print()
        print('DISAGREEMENT [%s] %s' % (kind, what))
        print('  ' + d)
    return 1 if bad else 0


if __name__ == '__main__':
    sys.exit(main())
