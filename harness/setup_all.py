"""setup: regenerate, build every theorem file and the driver."""
import sys
import core


def main():
    with core.Lock():
        fails = core.regenerate(core.all_generators())
        for f in fails:
            core.log('generator failed: %s\n%s' % (f['generator'], f['output']))
        core.ensure_makefile()
        rc, out = core.make([], timeout=7200)
        sys.stdout.write(out[-3000:])
        ok, log = core.build_driver()
        if not ok:
            sys.stdout.write(log[-3000:])
        # a failing proof here is reported by the checks themselves; setup only needs the tool chain to work
        return 0 if ok else 1


if __name__ == '__main__':
    sys.exit(main())
