"""Differential check of the report-generator models (coq/Model/ErrIter.v, Html.v, XmlOut.v, XmlIn.v via the
units "html", "xmlout", "xmlin") against pyx12.error_html / err_iter, pyx12.x12xml_simple and
pyx12.xmlx12_simple on generated cases.

usage: out_check.py [N_html] [N_xmlout] [N_xmlin] [seed] [--no-build] [--show K] [--only html|xmlout|xmlin]"""
import collections
import random
import sys
import time
import xml.etree.ElementTree as et

import core
import mapser
import out_gen
import out_impl

MAPS_SMALL = ['x12.control.00401.xml', 'x12.control.00501.xml', '997.4010.xml', '999.5010.xml', '841.4010.XXXC.xml',
              '830.4010.PS.xml', 'comp_test.xml', '820.5010.X218.v2.xml', '835.5010.X221.A1.v2.xml']
MAPS_BIG = ['837.5010.X222.A1.xml', '834.5010.X220.A1.xml', '270.4010.X092.A1.xml', '278.4010.X094.A1.xml',
            '835.4010.X091.A1.xml', '837.4010.X098.A1.xml', '277.5010.X214.xml']
SYN = ['syn.xml']


def first_diff(model, impl):
    ms, is_ = model.split('\n'), impl.split('\n')
    for k, (a, b) in enumerate(zip(ms, is_)):
        if a != b:
            j = 0
            while j < min(len(a), len(b)) and a[j] == b[j]:
                j += 1
            return 'line %d (%s) at %d:\n   model: %s\n   impl : %s' % (k, a[:2], j, a[max(0, j - 80):j + 120],
                                                                       b[max(0, j - 80):j + 120])
    return 'lengths differ: %d vs %d lines' % (len(ms), len(is_))


def unhex(h):
    return bytes.fromhex(h).decode('latin-1')


def check_html(n, rng, show, stats):
    cases = [out_gen.gen_html(rng) for _ in range(n)]
    reqs = [out_impl.html_request(t, term, cmds) for (_, t, term, cmds) in cases]
    outs = core.ModelRunner().run(reqs)
    bad = []
    for k, (kind, t, term, cmds) in enumerate(cases):
        impl = out_impl.impl_html(t, term, cmds)
        stats['html:kind:' + kind] += 1
        stats['html:commands'] += len(cmds)
        for ln in impl.split('\n'):
            tag = ln[:2]
            if tag == 'R:':
                f = ln[2:].split('|')
                stats['html:gen_seg'] += 1
                if len(f) >= 3:
                    stats['html:gen_seg:%s' % (f[1] or 'complete')] += 1
                    nn = len([x for x in f[2].split(',') if x])
                    stats['html:gen_seg:nodes=%s' % (nn if nn < 4 else '4+')] += 1
                    w = [unhex(x) for x in f[0].split(',') if x]
                    ne = len([x for x in w if 'class="error"' in x])
                    stats['html:gen_seg:error-lines=%s' % (ne if ne < 5 else ('5-8' if ne <= 8 else '9+'))] += 1
                    if any('class="ele_err"' in x for x in w):
                        stats['html:gen_seg:with-marked-element'] += 1
                    if any('class="info"' in x for x in w):
                        stats['html:gen_seg:with-loop-line'] += 1
                    if any(('&amp;' in x or '&lt;' in x or '&gt;' in x or '&nbsp;' in x.split('&nbsp;', 1)[-1])
                           for x in w if 'class="seg"' in x):
                        stats['html:gen_seg:with-escaped-data'] += 1
            elif tag == 'F:':
                f = ln[2:].split('|')
                stats['html:footer:%s' % (f[1] or 'complete')] += 1
                if len([x for x in f[0].split(',') if x]) > 3:
                    stats['html:footer:with-error-lines'] += 1
            elif tag == 'N:':
                stats['html:next-on-ele:' + ln[2:]] += 1
            elif tag == 'e:' and ln[2:3] == '!':
                stats['html:event-raises:' + ln[2:]] += 1
        if outs[k] != impl:
            bad.append((k, kind, t, term, cmds, outs[k], impl))
    print('html: scripts=%d disagreements=%d' % (n, len(bad)))
    for (k, kind, t, term, cmds, model, impl) in bad[:show]:
        print('--- html case %d (%s) time=%r term=%r' % (k, kind, t, term))
        for e in cmds:
            print('   ', repr(e))
        print(first_diff(model, impl))
    return len(bad)


def check_xmlout(n, rng, show, stats, keep):
    syn_dir = out_gen.synthetic_mapdir()
    plan = []
    for _ in range(n):
        r = rng.random()
        if r < 0.45:
            plan.append((rng.choice(MAPS_SMALL), None))
        elif r < 0.75:
            plan.append((rng.choice(MAPS_BIG), None))
        else:
            plan.append((rng.choice(SYN), syn_dir))
    names_std = sorted(set([nm for nm, dd in plan if dd is None] + ['x12.control.00401.xml']))
    pre = mapser.preload(names_std) + [(nm, mapser.ser_file(nm, syn_dir)) for nm in SYN]
    cases = []
    for (nm, dd) in plan:
        try:
            m = out_impl.load_map(nm, dd)
        except Exception as e:  # noqa  (a shipped map that does not load: known C16 finding; not this check's subject)
            stats['xmlout:map-does-not-load:%s:%s' % (nm, type(e).__name__)] += 1
            nm, dd = 'x12.control.00401.xml', None
            m = out_impl.load_map(nm, dd)
        dtd, calls = out_gen.gen_xmlout(rng, (nm, dd), m)
        cases.append((nm, dd, m, dtd, calls))
    reqs = [out_impl.xmlout_request(nm, dtd, calls) for (nm, dd, m, dtd, calls) in cases]
    outs = core.ModelRunner().run(reqs, preload=pre)
    bad = []
    malformed = []
    for k, (nm, dd, m, dtd, calls) in enumerate(cases):
        impl, text = out_impl.impl_xmlout(m, dtd, calls)
        stats['xmlout:map:' + nm] += 1
        stats['xmlout:seg-calls'] += len(calls)
        exs = impl.rsplit('|', 1)[1]
        for e in [x for x in exs.split(',') if x]:
            stats['xmlout:seg-raises:' + e.split(':', 1)[1]] += 1
        stats['xmlout:%s' % ('some-call-raised' if exs else 'all-calls-complete')] += 1
        for tag in ('<comp ', '<subele ', '&amp;', '&lt;', '&apos;', '<!DOCTYPE'):
            if tag in text:
                stats['xmlout:text-with:' + tag.strip()] += 1
        # well-formedness is judged on what x12n_document would leave behind: the run ends at the first exception
        text_a, exn_a = out_impl.impl_xmlout_abort(m, dtd, calls) if exs else (text, '')
        if exs:
            # the text of the differential run itself (every call made, exceptions swallowed by the harness)
            stats['xmlout:calls-continued-after-exception:%s' %
                  ('well-formed' if out_impl.well_formed(text) is None else 'NOT-well-formed')] += 1
        wf = out_impl.well_formed(text_a)
        cls = 'synthetic-map' if dd else ('comp_test.xml' if nm == 'comp_test.xml' else 'shipped-map')
        why = ('run-ended-by-' + exn_a[1:]) if exn_a else 'no-exception'
        if wf is not None:
            stats['xmlout:NOT-well-formed'] += 1
            stats['xmlout:NOT-well-formed:%s:%s:%s' % (cls, wf.split(':')[1].strip(), why)] += 1
            if 'junk after' in wf:
                cause = 'document element closed early (loop bookkeeping popped <x12simple>)'
            elif any(c in dtd for c in "'<&"):
                cause = 'dtd_urn written unescaped into the DOCTYPE'
            elif any(ord(c) < 32 and c not in '\t\n\r' for c in text_a):
                cause = 'control character in a data value written as is'
            else:
                cause = 'other'
            stats['xmlout:NOT-well-formed-cause:' + cause] += 1
            malformed.append((nm, wf, exn_a, calls, text_a))
        else:
            stats['xmlout:well-formed'] += 1
            stats['xmlout:well-formed:%s:%s' % (cls, why)] += 1
            if not exs:
                keep.append(text)
        if outs[k] != impl:
            bad.append((k, nm, dtd, calls, outs[k], impl))
    print('xmlout: sequences=%d disagreements=%d not-well-formed=%d' % (n, len(bad), len(malformed)))
    for (k, nm, dtd, calls, model, impl) in bad[:show]:
        print('--- xmlout case %d map=%s dtd=%r' % (k, nm, dtd))
        for c in calls:
            print('   ', repr(c))
        mt, it = model.split('|')[0], impl.split('|')[0]
        try:
            print(first_diff(unhex(mt) + '\n|' + model.split('|', 1)[1], unhex(it) + '\n|' + impl.split('|', 1)[1]))
        except ValueError:
            print('   model: %s\n   impl : %s' % (model[:300], impl[:300]))
    reasons = collections.Counter()
    for (nm, wf, exs, calls, text) in malformed:
        reasons[wf.split(':', 2)[1].strip() if ':' in wf else wf] += 1
    for r, c in reasons.most_common():
        print('   not well-formed: %-50s %d' % (r, c))
    shown = set()
    for (nm, wf, exs, calls, text) in malformed:
        key = wf.split(':', 2)[1].strip() + ('|exn' if exs else '')
        if key in shown or len(shown) >= 2 * show:
            continue
        shown.add(key)
        print('--- not well-formed example (map=%s, %s, raised: %s)' % (nm, wf, exs or 'nothing'))
        for c in calls[:6]:
            print('   ', repr(c))
        lines = text.split('\n')
        print('   | ' + '\n   | '.join(x.encode('unicode_escape').decode('ascii') for x in lines[:14]) +
              ('\n   | ...' if len(lines) > 14 else ''))
    return len(bad)


def check_xmlin(n, rng, show, stats, produced):
    texts = []
    for _ in range(n):
        r = rng.random()
        if produced and r < 0.3:
            texts.append(('roundtrip', rng.choice(produced)))
        elif produced and r < 0.6:
            root = out_impl.parse_tree(rng.choice(produced))
            texts.append(('mutated-roundtrip', out_gen.tree_text(out_gen.mutate_tree(rng, root))))
        elif r < 0.8:
            texts.append(('envelope', out_gen.tree_text(out_gen.x12_envelope_xml(rng))))
        else:
            texts.append(('mutated-envelope', out_gen.tree_text(out_gen.mutate_tree(rng, out_gen.x12_envelope_xml(rng)))))
    reqs, idx = [], []
    for k, (kind, text) in enumerate(texts):
        root = out_impl.parse_tree(text)
        if root is None:
            stats['xmlin:unparseable-input'] += 1
            continue
        ser = out_impl.ser_full(root)
        try:
            ser.encode('latin-1')
        except UnicodeEncodeError:
            stats['xmlin:non-latin1-skipped'] += 1
            continue
        reqs.append(('xmlin', [ser]))
        idx.append(k)
    outs = core.ModelRunner().run(reqs)
    bad = []
    for j, k in enumerate(idx):
        kind, text = texts[k]
        impl = out_impl.impl_xmlin(text)
        stats['xmlin:kind:' + kind] += 1
        body, exn = impl.rsplit('|', 1)
        stats['xmlin:%s' % (exn or 'complete')] += 1
        stats['xmlin:%s:%s' % (kind, exn or 'complete')] += 1
        stats['xmlin:segments-written'] += unhex(body).count('~')
        if outs[j] != impl:
            bad.append((k, kind, text, outs[j], impl))
    print('xmlin: trees=%d disagreements=%d' % (len(idx), len(bad)))
    for (k, kind, text, model, impl) in bad[:show]:
        print('--- xmlin case %d (%s)' % (k, kind))
        print('   ' + text[:1500].replace('\n', '\n   '))
        try:
            print('   model: %r %s\n   impl : %r %s' % (unhex(model.split('|')[0])[-300:], model.split('|')[1],
                                                         unhex(impl.split('|')[0])[-300:], impl.split('|')[1]))
        except (ValueError, IndexError):
            print('   model: %s\n   impl : %s' % (model[:300], impl[:300]))
    return len(bad)


def main():
    argv = sys.argv[1:]
    args, flags, opts = [], [], {}
    i = 0
    while i < len(argv):
        if argv[i] in ('--show', '--only'):
            opts[argv[i]] = argv[i + 1]
            i += 2
        elif argv[i].startswith('--'):
            flags.append(argv[i])
            i += 1
        else:
            args.append(argv[i])
            i += 1
    n_html = int(args[0]) if len(args) > 0 else 1600
    n_xo = int(args[1]) if len(args) > 1 else 1600
    n_xi = int(args[2]) if len(args) > 2 else 600
    seed = int(args[3]) if len(args) > 3 else 20261001
    show = int(opts.get('--show', 3))
    only = opts.get('--only')
    t0 = time.time()
    if '--no-build' not in flags:
        with core.Lock():
            core.ensure_makefile()
            rc, out = core.make(['Model/UnitsMap.vo'], keep_going=False)
            if rc != 0:
                print('BUILD FAILED\n' + out[-3000:])
                return 2
            ok, log = core.build_driver()
            if not ok:
                print('DRIVER BUILD FAILED\n' + log[-3000:])
                return 2
    print('build %.1fs, seed=%d' % (time.time() - t0, seed))
    stats = collections.Counter()
    total = 0
    produced = []
    if only in (None, 'html'):
        t1 = time.time()
        total += check_html(n_html, random.Random(seed), show, stats)
        print('   (%.1fs)' % (time.time() - t1))
    if only in (None, 'xmlout', 'xmlin'):
        t1 = time.time()
        total += check_xmlout(n_xo if only != 'xmlin' else min(n_xo, 300), random.Random(seed + 1), show, stats, produced)
        print('   (%.1fs)' % (time.time() - t1))
    if only in (None, 'xmlin'):
        t1 = time.time()
        total += check_xmlin(n_xi, random.Random(seed + 2), show, stats, produced)
        print('   (%.1fs)' % (time.time() - t1))
    print('distribution:')
    for key in sorted(stats):
        print('  %-55s %d' % (key, stats[key]))
    print('TOTAL disagreements=%d' % total)
    return 1 if total else 0


if __name__ == '__main__':
    sys.exit(main())
