"""Random event sequences for the error_handler / 997 / 999 correspondence
(see errh_impl.py for the event tuples).

 gen_protocol(rng): the call pattern of x12n_document — per segment: walker errors (seg_error, or
   add_seg + seg_error for a missing segment), the add_* / close_* call, handle_errors with the
   reader's errors, then validation (add_ele + ele_error per element, on envelope segments too);
   several sets / groups / interchanges, trailers sometimes left out, odd header segments
   (short ISA / GS / ST, missing or non-numeric GE01), ids that are None, values containing
   the delimiters ~ * : ^.
 gen_chaos(rng): calls in any order with any arguments (errors before any ISA, GS without ISA,
   close without open, wrong segment handed to add_*_loop ...), or a protocol sequence with
   events dropped / duplicated / swapped.
 gen_focus(rng): small clean documents whose only errors sit on the envelope segments.
 gen_case(rng): (kind, clock, events), kinds mixed."""

DELIMS = ['~*:', '~*:', '~*:', '~*\\', '\n|>', '!+.', '~|^']

SEG_CODES = ['1', '2', '3', '4', '5', '6', '7', '8', 'I4', 'I6', 'I7', 'I8', 'I9', 'SEG1', 'SEG1', 'HL1', 'HL2', 'LX',
             '', '10', 'X', '08']
ELE_CODES = ['1', '2', '3', '4', '5', '6', '7', '8', '9', '10', '12', '13', 'I10', 'I11', 'I12', 'I13', 'I6', 'I9',
             '', '11', 'X', '01']
ISA_CODES = ['000', '001', '002', '003', '004', '005', '006', '009', '010', '012', '013', '018', '021', '023', '024',
             '025', '026', '027', '028', 'ISA1', 'xIEAx', '']
GS_CODES = ['1', '2', '3', '4', '5', '6', '', '66', '16']
ST_CODES = ['1', '2', '3', '4', '5', '6', '7', '23', '', 'I5', '10']
WORDS = ['ISA', 'IEA', 'GS', 'GE', 'ST', 'SE', 'Mandatory', 'element', 'segment', 'is missing', 'too long', 'REF02',
         'invalid', 'isa', 'I S A', 'GSE', 'TEST', 'USED', 'ISE']
ODD = ['~', '*', ':', '^', ' ', 'a~b', 'x*y', 'p:q', 'r^s', '::', '*~', ' lead', 'trail ', 'A:B:C', '~~', '*', ':x', 'x:']


HOSTILE = [1.0]     # scales the probability of the odd choices (None ids / lines, short headers, bad positions)


def odd(rng, p):
    return rng.random() < p * HOSTILE[0]


def msg(rng, must=None):
    n = rng.randint(0, 4)
    ws = [rng.choice(WORDS) for _ in range(n)]
    if must is not None and rng.random() < 0.8:
        ws.insert(rng.randint(0, len(ws)), '(%s%02d)' % (must, rng.randint(1, 16)))
    return ' '.join(ws)


def value(rng):
    r = rng.random()
    if r < 0.25:
        return None
    if r < 0.35:
        return ''
    if r < 0.6:
        return rng.choice(ODD)
    return ''.join(rng.choice('ABC123 xyz') for _ in range(rng.randint(1, 8)))


def small_text(rng):
    r = rng.random()
    if r < 0.15:
        return rng.choice(ODD)
    return ''.join(rng.choice('ABCDEFXYZ0123456789') for _ in range(rng.randint(1, 6)))


def opt_line(rng, line):
    if not odd(rng, 1.0):
        return line
    r = rng.random()
    if r < 0.04:
        return None
    if r < 0.07:
        return 0
    if r < 0.09:
        return -rng.randint(1, 5)
    return line


def clock(rng):
    r = rng.random()
    if r < 0.1:
        return ('', '', '', '', rng.randint(0, 9))
    if r < 0.2:
        return (small_text(rng), small_text(rng), small_text(rng), small_text(rng), rng.randint(-5, 10 ** 10))
    return ('%02d%02d%02d' % (rng.randint(0, 99), rng.randint(1, 12), rng.randint(1, 28)),
            '%02d%02d' % (rng.randint(0, 23), rng.randint(0, 59)),
            '%04d%02d%02d' % (rng.randint(1990, 2030), rng.randint(1, 12), rng.randint(1, 28)),
            '%02d%02d%02d' % (rng.randint(0, 23), rng.randint(0, 59), rng.randint(0, 59)),
            rng.randint(10000000, 999999999))


def join(d, parts):
    return d[1].join(parts)


def pick_val(rng, normal):
    if not odd(rng, 1.0):
        return normal
    r = rng.random()
    if r < 0.06:
        return rng.choice(ODD)
    if r < 0.09:
        return ''
    return normal


def isa_text(rng, d, icn):
    e = ['00', '          ', '00', '          ', 'ZZ', pick_val(rng, 'SENDER         '), 'ZZ',
         pick_val(rng, 'RECEIVER       '), pick_val(rng, '030828'), pick_val(rng, '1128'),
         rng.choice(['U', 'U', '^', '']), rng.choice(['00401', '00501', '00501', '004', '']), icn,
         rng.choice(['0', '1', '1', '1', ' 1', '']), rng.choice(['T', 'P', '']), d[2]]
    r = rng.random() if odd(rng, 1.0) else 1
    if r < 0.08:
        e = e[:rng.randint(0, 15)]
    elif r < 0.11:
        e = e + ['X']
    return join(d, ['ISA'] + e)


def gs_text(rng, d, gcn):
    e = [pick_val(rng, 'HC'), pick_val(rng, 'SENDER  '), pick_val(rng, 'RECEIVER '), '20030828', '1128', gcn,
         pick_val(rng, 'X'), pick_val(rng, '004010X098A1')]
    r = rng.random() if odd(rng, 1.0) else 1
    if r < 0.1:
        e = e[:rng.randint(0, 7)]
    return join(d, ['GS'] + e)


def st_text(rng, d, scn, v5010=None):
    e = [pick_val(rng, rng.choice(['837', '835', '270'])), scn]
    r = rng.random()
    if v5010 is not None and not odd(rng, 0.3):
        r = 0 if v5010 else 0.9
    if r < 0.45 or (r < 0.55 and not odd(rng, 1.0)):
        e.append(pick_val(rng, '005010X222'))
    elif r < 0.55:
        e = e[:rng.randint(0, 1)]
    return join(d, ['ST'] + e)


def body_text(rng, d):
    r = rng.random() if odd(rng, 1.0) else 1
    if r < 0.03:
        return ''
    if r < 0.06:
        sid = rng.choice(['R*F', 'A:B', 'X~', 'lower', 'TOOLONG', '1A', '*'])
    else:
        sid = rng.choice(['REF', 'NM1', 'HL', 'CLM', 'LX', 'SV1', 'DTP', 'BHT', 'N3', 'N4'])
    if d[1] in sid or d[0] in sid:
        sid = 'REF'
    return join(d, [sid] + [small_text(rng).replace(d[1], '').replace(d[0], '') for _ in range(rng.randint(0, 4))])


def ele_event(rng, max_seq):
    comp = rng.random() < 0.2
    r = rng.random() if odd(rng, 1.0) else 0
    if r < 0.85:
        seq = rng.randint(1, max_seq)
    else:
        seq = rng.choice([0, max_seq + 1, 17, 20, -1, 3])
    data_ele = None if rng.random() < 0.15 else rng.choice(['', '66', '128', 'I05', 'C040', rng.choice(ODD)])
    return ('E', data_ele, small_text(rng), rng.randint(0, 3) if comp else seq, comp, seq)


def validation(rng, evs, word, max_seq, heavy=False):
    """node.is_valid(seg, errh): add_ele per element, ele_error for the bad ones"""
    n = rng.choice([0, 0, 1, 1, 2, 3, 4] if not heavy else [1, 2, 3, 4, 6])
    for _ in range(n):
        evs.append(ele_event(rng, max_seq))
        for _ in range(rng.choice([0, 1, 1, 2, 3])):
            evs.append(('e', rng.choice(ELE_CODES), msg(rng, word), value(rng)))
    if rng.random() < 0.1:
        evs.append(('e', rng.choice(ELE_CODES), msg(rng, word), value(rng)))     # syntax error: no add_ele of its own


def reader_errors(rng, kinds, line):
    items = []
    for _ in range(rng.choice([0, 0, 0, 1, 1, 2, 3])):
        t = rng.choice(kinds)
        if t == 'isa':
            items.append(('isa', rng.choice(ISA_CODES), msg(rng), None, None))
        elif t == 'gs':
            items.append(('gs', rng.choice(GS_CODES), msg(rng), None, None))
        elif t == 'st':
            items.append(('st', rng.choice(ST_CODES), msg(rng), None, None))
        elif t == 'seg':
            items.append(('seg', rng.choice(SEG_CODES), msg(rng), value(rng),
                          rng.choice([None, None, line, line + 1, 0])))
        else:
            items.append((t, 'Z', msg(rng), None, None))
    return ('H', items)


class Doc(object):
    def __init__(self, rng):
        self.rng = rng
        self.line = 0
        self.seg_count = 0
        self.isa_id = None
        self.gs_id = None
        self.st_id = None
        self.st_count = 0

    def src(self, **kw):
        rng = self.rng
        s = [self.isa_id, self.gs_id, self.st_id, opt_line(rng, self.line),
             self.st_count if rng.random() < 0.9 else rng.choice([0, 1, 7, -1])]
        if odd(rng, 0.04):
            s[rng.randint(0, 2)] = None
        return tuple(s)


def walker_errors(rng, doc, evs, d):
    for _ in range(rng.choice([0, 0, 0, 0, 1, 2])):
        if rng.random() < 0.5 and odd(rng, 1.0):  # a seg_error with no add_seg of its own lands on the previous node
            evs.append(('s', rng.choice(SEG_CODES), msg(rng), value(rng), rng.choice([None, None, None, doc.line, 0])))
        else:
            evs.append(('S', (small_text(rng), rng.randint(0, 900)) if rng.random() < 0.9 else None, d, body_text(rng, d),
                        opt_line(rng, doc.seg_count), opt_line(rng, doc.line), rng.choice([None, None, '', 'LS1', ':'])))
            evs.append(('s', rng.choice(['3', '4', '5', '1']), msg(rng), None, None))


def gen_protocol(rng):
    evs = []
    doc = Doc(rng)
    d = rng.choice(DELIMS)
    heavy = rng.random() < 0.3
    v5010 = rng.random() < 0.6
    for a in range(rng.choice([1, 1, 1, 1, 2, 2, 3])):
        doc.line += 1
        icn = '%09d' % rng.randint(1, 999999999)
        doc.isa_id = None if odd(rng, 0.05) else icn
        evs.append(('I', d, isa_text(rng, d, icn), doc.src()))
        evs.append(reader_errors(rng, ['isa', 'isa', 'seg'], doc.line))
        validation(rng, evs, 'ISA', 16, heavy and rng.random() < 0.5)
        for g in range(rng.choice([0, 1, 1, 1, 2, 3])):
            doc.line += 1
            gcn = pick_val(rng, str(rng.randint(1, 99999)))
            doc.gs_id = rng.choice([gcn, gcn, gcn, None, gcn + ' ']) if odd(rng, 1.0) else gcn
            doc.st_count = 0
            walker_errors(rng, doc, evs, d)
            evs.append(('G', d, gs_text(rng, d, gcn), doc.src()))
            evs.append(reader_errors(rng, ['gs', 'seg', 'isa'], doc.line))
            validation(rng, evs, 'GS', 8, heavy and rng.random() < 0.5)
            for s in range(rng.choice([0, 1, 1, 2, 3])):
                doc.line += 1
                scn = '%04d' % rng.randint(1, 9999)
                doc.st_id = rng.choice([scn, scn, scn, scn, ' ' + scn + ' ', None, pick_val(rng, scn)]) if odd(rng, 1.0) else scn
                doc.st_count += 1
                doc.seg_count = 1
                walker_errors(rng, doc, evs, d)
                evs.append(('T', d, st_text(rng, d, scn, v5010), doc.src()))
                evs.append(reader_errors(rng, ['st', 'seg'], doc.line))
                validation(rng, evs, 'ST', 3 if odd(rng, 0.2) else 2, heavy and rng.random() < 0.5)
                for b in range(rng.choice([0, 1, 2, 3, 5, 8])):
                    doc.line += 1
                    doc.seg_count += 1
                    walker_errors(rng, doc, evs, d)
                    evs.append(('S', (small_text(rng), rng.randint(0, 900)) if rng.random() < 0.95 else None, d,
                                body_text(rng, d), opt_line(rng, doc.seg_count), opt_line(rng, doc.line),
                                rng.choice([None, None, None, '', 'LS2', 'a*b', '~'])))
                    evs.append(reader_errors(rng, ['seg', 'seg', 'st', 'ele'], doc.line))
                    validation(rng, evs, rng.choice([None, 'REF', 'ST', 'SE', 'ISA', 'GS']), 6, heavy)
                    if rng.random() < 0.05:
                        evs.append(('C',))
                if rng.random() < 0.85:
                    doc.line += 1
                    walker_errors(rng, doc, evs, d)
                    evs.append(reader_errors(rng, ['st', 'st', 'seg'], doc.line))
                    evs.append(('Z', doc.src()))
                    validation(rng, evs, 'SE', 3 if odd(rng, 0.15) else 2)
            if rng.random() < 0.85:
                doc.line += 1
                evs.append(reader_errors(rng, ['gs', 'gs', 'st', 'seg'], doc.line))
                r = rng.random() if odd(rng, 1.0) else 1
                if r < 0.05:
                    ge = None
                else:
                    ge01 = str(doc.st_count) if not odd(rng, 0.4) else \
                        rng.choice(['x', '', ' 2 ', '+1', '1_0', '-1', '0', '007', '1.0', '1_', '\xb2', 'N'])
                    ge01 = ge01.replace(d[1], '').replace(d[0], '')
                    ge = (d, join(d, ['GE', ge01, gcn]))
                    r2 = rng.random() if odd(rng, 1.0) else 1
                    if r2 < 0.05:
                        ge = (d, 'GE')
                    elif r2 < 0.08:
                        ge = (d, join(d, ['SE', '1', gcn]))
                    elif r2 < 0.1:
                        ge = (d, '')
                evs.append(('Y', ge, doc.src()))
                validation(rng, evs, 'GE', 2)
        if rng.random() < 0.85:
            doc.line += 1
            evs.append(reader_errors(rng, ['isa', 'isa', 'gs'], doc.line))
            evs.append(('X', doc.src()))
            validation(rng, evs, 'IEA', 3 if odd(rng, 0.15) else 2)
    if rng.random() < 0.5:
        evs.append(reader_errors(rng, ['isa', 'gs', 'st', 'seg'], doc.line))   # src.cleanup()
    if rng.random() < 0.3:
        evs.append(('C',))
    return evs


def any_src(rng):
    o = lambda: None if rng.random() < 0.3 else small_text(rng)  # noqa
    return (o(), o(), o(), rng.choice([None, 0, 1, 2, 5, 17, -1]), rng.choice([0, 0, 1, 2, 5]))


def any_seg_text(rng, d, want):
    r = rng.random()
    if r < 0.7:
        icn = '%09d' % rng.randint(1, 999)
        if want == 'ISA':
            return isa_text(rng, d, icn)
        if want == 'GS':
            return gs_text(rng, d, str(rng.randint(1, 99)))
        if want == 'ST':
            return st_text(rng, d, '%04d' % rng.randint(1, 99))
        if want == 'GE':
            return join(d, ['GE', rng.choice(['1', '2', 'x', '']), '7'])
        return body_text(rng, d)
    return rng.choice([isa_text(rng, d, '000000001'), gs_text(rng, d, '1'), st_text(rng, d, '0001'), body_text(rng, d), '',
                       'ISA', 'GS', 'ST', 'GE'])


def any_event(rng, d):
    k = rng.choice('IGTSSEEigtsseeXYZHC')
    if k == 'I':
        return ('I', d, any_seg_text(rng, d, 'ISA'), any_src(rng))
    if k == 'G':
        return ('G', d, any_seg_text(rng, d, 'GS'), any_src(rng))
    if k == 'T':
        return ('T', d, any_seg_text(rng, d, 'ST'), any_src(rng))
    if k == 'S':
        return ('S', (small_text(rng), rng.randint(-1, 50)) if rng.random() < 0.8 else None, d, any_seg_text(rng, d, 'REF'),
                rng.choice([None, 0, 1, 2, 30]), rng.choice([None, 0, 1, 2, 30]), rng.choice([None, '', 'LS', '*']))
    if k == 'E':
        return ele_event(rng, rng.choice([2, 8, 16]))
    if k == 'i':
        return ('i', rng.choice(ISA_CODES), msg(rng))
    if k == 'g':
        return ('g', rng.choice(GS_CODES), msg(rng))
    if k == 't':
        return ('t', rng.choice(ST_CODES), msg(rng))
    if k == 's':
        return ('s', rng.choice(SEG_CODES), msg(rng), value(rng), rng.choice([None, None, 0, 3, 9]))
    if k == 'e':
        return ('e', rng.choice(ELE_CODES), msg(rng, rng.choice([None, 'ISA', 'IEA', 'GS', 'GE', 'ST', 'SE'])), value(rng))
    if k == 'X':
        return ('X', any_src(rng))
    if k == 'Z':
        return ('Z', any_src(rng))
    if k == 'Y':
        return ('Y', None if rng.random() < 0.2 else (d, any_seg_text(rng, d, 'GE')), any_src(rng))
    if k == 'H':
        return reader_errors(rng, ['isa', 'gs', 'st', 'seg', 'ele', ''], rng.randint(0, 9))
    return ('C',)


def gen_chaos(rng):
    d = rng.choice(DELIMS)
    r = rng.random()
    if r < 0.55:
        return [any_event(rng, d) for _ in range(rng.randint(1, 30))]
    evs = gen_protocol(rng)
    for _ in range(rng.randint(1, 6)):
        if not evs:
            break
        i = rng.randrange(len(evs))
        op = rng.choice(['drop', 'drop', 'dup', 'swap', 'ins', 'trunc'])
        if op == 'drop':
            del evs[i]
        elif op == 'dup':
            evs.insert(rng.randrange(len(evs) + 1), evs[i])
        elif op == 'swap':
            j = rng.randrange(len(evs))
            evs[i], evs[j] = evs[j], evs[i]
        elif op == 'ins':
            evs.insert(i, any_event(rng, d))
        else:
            evs = evs[:i + 1]
    return evs


def sanitize(ev):
    """the model's encoding reserves 0x1e / 0x1f, and text is latin-1"""
    def ok(x):
        return not isinstance(x, str) or ('\x1e' not in x and '\x1f' not in x and all(ord(c) < 256 for c in x))

    def walk(x):
        if isinstance(x, (tuple, list)):
            return all(walk(y) for y in x)
        return ok(x)
    return walk(ev)


def ele_err(rng, evs, word, max_seq, p_each=0.5):
    """element errors of an envelope segment: the message names the segment, the position is in range"""
    for _ in range(rng.choice([0, 1, 1, 2])):
        if rng.random() > p_each:
            continue
        seq = rng.randint(1, max_seq)
        evs.append(('E', rng.choice([None, 'I05', '28']), 'n', seq, False, seq))
        for _ in range(rng.choice([1, 1, 2])):
            evs.append(('e', rng.choice(ELE_CODES), 'bad element (%s%02d)' % (word, seq), value(rng)))


def gen_focus(rng):
    """small clean documents whose only errors sit on the envelope segments (TA1 note codes, AK9 / AK5 / IK5 codes)"""
    HOSTILE[0] = 0.0
    evs = []
    doc = Doc(rng)
    d = '~*:'
    for a in range(rng.choice([1, 1, 2])):
        doc.line += 1
        icn = '%09d' % rng.randint(1, 999999999)
        doc.isa_id = icn
        e = ['00', '          ', '00', '          ', 'ZZ', rng.choice(['SENDER         ', ' S             ']), 'ZZ',
             'RECEIVER       ', '030828', '1128', 'U', rng.choice(['00401', '00501']), icn, rng.choice(['1', '1', '1', '0']),
             'T', ':']
        evs.append(('I', d, join(d, ['ISA'] + e), doc.src()))
        single = rng.random() < 0.5        # exactly one interchange-level error: it decides the TA1 note code
        single_on_isa = rng.random() < 0.8
        if single:
            if single_on_isa:
                seq = rng.randint(1, 16)
                evs.append(('E', 'I05', 'n', seq, False, seq))
                evs.append(('e', rng.choice(ELE_CODES), 'bad element (ISA%02d)' % seq, value(rng)))
        else:
            for _ in range(rng.choice([0, 0, 1, 2])):
                evs.append(('H', [('isa', rng.choice(ISA_CODES), msg(rng), None, None)]))
            ele_err(rng, evs, 'ISA', 16)
        for g in range(rng.choice([1, 1, 2])):
            doc.line += 1
            gcn = str(rng.randint(1, 99999))
            doc.gs_id = gcn
            doc.st_count = 0
            evs.append(('G', d, join(d, ['GS', 'HC', rng.choice(['SENDER', ' SENDER ', 'S  ']),
                                         rng.choice(['RECEIVER', '  R ', 'R\t']), '20030828', '1128', gcn, 'X',
                                         rng.choice(['004010X098A1', '005010X222'])]), doc.src()))
            for _ in range(rng.choice([0, 0, 1, 2])):
                evs.append(('H', [('gs', rng.choice(GS_CODES), msg(rng), None, None)]))
            ele_err(rng, evs, 'GS', 8)
            for t in range(rng.choice([0, 1, 1, 2, 3])):
                doc.line += 1
                scn = '%04d' % rng.randint(1, 9999)
                doc.st_id = scn
                doc.st_count += 1
                doc.seg_count = 1
                evs.append(('T', d, join(d, ['ST', '837', scn, '005010X222']), doc.src()))
                for _ in range(rng.choice([0, 0, 1, 2, 6])):
                    evs.append(('H', [('st', rng.choice(ST_CODES), msg(rng), None, None)]))
                ele_err(rng, evs, 'ST', 2)
                for b in range(rng.choice([0, 0, 1, 2])):
                    doc.line += 1
                    doc.seg_count += 1
                    evs.append(('S', ('n', b), d, join(d, [rng.choice(['REF', 'NM1', 'HL']), 'A', 'B']), doc.seg_count, doc.line,
                                rng.choice([None, 'LS1'])))
                    for _ in range(rng.choice([0, 1, 2, 4])):
                        evs.append(('s', rng.choice(SEG_CODES), msg(rng), value(rng), None))
                    if rng.random() < 0.5:
                        comp = rng.random() < 0.3
                        seq = rng.randint(1, 5)
                        evs.append(('E', rng.choice([None, '66', 'C040']), 'n', rng.randint(0, 3) if comp else seq, comp, seq))
                        for _ in range(rng.choice([1, 2, 3])):
                            evs.append(('e', rng.choice(ELE_CODES), msg(rng), value(rng)))
                if rng.random() < 0.9:
                    doc.line += 1
                    evs.append(('Z', doc.src()))
                    ele_err(rng, evs, 'SE', 2)
            if rng.random() < 0.9:
                doc.line += 1
                for _ in range(rng.choice([0, 0, 1])):
                    evs.append(('H', [('gs', rng.choice(GS_CODES), msg(rng), None, None)]))
                evs.append(('Y', (d, join(d, ['GE', str(doc.st_count + rng.choice([0, 0, 0, 1])), gcn])), doc.src()))
                ele_err(rng, evs, 'GE', 2)
        if rng.random() < 0.9:
            doc.line += 1
            evs.append(('X', doc.src()))
            if single:
                if not single_on_isa:
                    seq = rng.randint(1, 2)
                    evs.append(('E', 'I16', 'n', seq, False, seq))
                    evs.append(('e', rng.choice(ELE_CODES), 'bad element (IEA%02d)' % seq, value(rng)))
            else:
                ele_err(rng, evs, 'IEA', 2)
    return evs


def gen_case(rng):
    r = rng.random()
    kind = 'protocol' if r < 0.45 else ('chaos' if r < 0.8 else 'focus')
    HOSTILE[0] = rng.choice([0.0, 0.0, 0.15, 0.4, 1.0]) if kind == 'protocol' else 1.0
    evs = gen_protocol(rng) if kind == 'protocol' else (gen_chaos(rng) if kind == 'chaos' else gen_focus(rng))
    evs = [e for e in evs if sanitize(e)]
    return kind, clock(rng), evs
