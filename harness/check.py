"""Entry point: ./check <Cnn> [--tier quick|thorough] [--replay file] [--no-build]"""
import argparse
import importlib
import json
import os
import sys
import time

import core


def main():
    ap = argparse.ArgumentParser()
    ap.add_argument('prop')
    ap.add_argument('--tier', default=os.environ.get('VERIF_TIER', 'quick'), choices=['quick', 'thorough'])
    ap.add_argument('--replay')
    ap.add_argument('--no-build', action='store_true')
    args = ap.parse_args()
    seed = int(os.environ.get('VERIF_SEED', '20261001'))
    t0 = time.time()
    prop = args.prop
    sys.path.insert(0, os.path.join(core.VERIF, 'harness', 'props'))
    mod = importlib.import_module(prop)
    meta = mod.META
    if args.replay:
        with open(args.replay) as f:
            rp = json.load(f)
        return mod.replay(rp)
    with core.Lock():
        gen_fails = core.regenerate(meta.get('generators', ()))
        forbidden = core.forbidden_scan()
        core.ensure_makefile()
        core.log('building theorem files %s' % meta['theorem_files'])
        build = core.build_property(prop, meta['theorem_files'])
        core.log('obligations=%d discharged=%d broken=%s' % (build['obligations'], build['discharged'], build['broken']))
        driver_ok, driver_log = core.build_driver()
        if not driver_ok:
            core.log('driver build failed: ' + driver_log[-1500:])
    report = core.Report(prop)
    ctx = {'tier': args.tier, 'seed': seed, 'driver_ok': driver_ok,
           'broken': bool(gen_fails or forbidden or build['broken'] or not driver_ok)}
    mod.run(ctx, report)
    return core.decide(prop, args.tier, seed, t0, gen_fails, forbidden, build, driver_ok, driver_log, report, meta)


if __name__ == '__main__':
    sys.exit(main())
