"""Shared by the document-level properties (C05, C06, C07, C08, C19): run generated documents through the REAL
x12n_document (pipe_impl) and through the extracted Pipeline model under the same sink subsets and settings, report
the correspondence, and hand every run (text, mask, setting, outputs of the implementation) to the property's oracle."""
import collections

import core
import mapser
import pipe_gen
import pipe_impl
import walk_gen

CTL = ['x12.control.00401.xml', 'x12.control.00501.xml']


def settings_for(rng, n=4):
    out = []
    for g in range(n):
        out.append((('B', 'E')[g % 2], ('', 'states,taxonomy', '')[g % 3], pipe_gen.gen_clock(rng), '', ''))
    return out


def with_masks(rng, cases, k, force=None):
    runs = []
    for (kind, what, text) in cases:
        masks = pipe_impl.MASKS if rng.random() < 0.05 else rng.sample(pipe_impl.MASKS, k)
        if force and not any(force(m) for m in masks):
            masks = list(masks[:-1]) + [rng.choice([m for m in pipe_impl.MASKS if force(m)])]
        for m in masks:
            runs.append((kind, what, m, text))
    return runs


def run(report, ctx, rng, cases, k_masks, oracle=None, force=None, model=True, chunk=10):
    """cases: [(kind, what, text)].  oracle(kind, what, mask, text, setting, info) is called for every run."""
    settings = settings_for(rng)
    runs = with_masks(rng, cases, k_masks, force)
    by_setting = collections.defaultdict(list)
    for run_ in runs:
        by_setting[(sum(map(ord, run_[3][:200])) + len(run_[3])) % len(settings)].append(run_)
    mr = core.ModelRunner()
    for g in sorted(by_setting):
        setting = settings[g]
        charset, exclude, clock, htime, dtd = setting
        rs = by_setting[g]
        impl, infos = [], []
        groups = collections.defaultdict(list)
        for k, (kind, what, mask, text) in enumerate(rs):
            out, loaded, info = pipe_impl.impl_pipeline(text, mask, charset, exclude, clock, htime, dtd)
            impl.append(out)
            infos.append(info)
            groups[tuple(sorted(set(loaded)))].append(k)
            report.case((text, mask, charset, exclude))
            report.count('kind:' + kind)
            report.count('mask:' + mask)
            report.count('charset:' + charset)
            report.count('result:' + (info['last'] if info['last'].startswith('V:') else 'raise:' + info['exn'].split(':')[0]))
            if oracle:
                oracle(kind, what, mask, text, setting, info)
        if not (model and ctx['driver_ok']):
            continue
        outs_model = [None] * len(rs)
        for names, ks in sorted(groups.items()):
            reqs, owners = [], []
            for i in range(0, len(ks), chunk):
                part = ks[i:i + chunk]
                reqs.append(pipe_impl.pipeline_request(charset, exclude, list(names), clock, htime, dtd,
                                                       [(rs[k][2], rs[k][3]) for k in part]))
                owners.append(part)
            outs = mr.run(reqs, preload=mapser.preload(sorted(set(list(names) + CTL))), shards=min(core.NPROC, len(reqs)))
            for part, o in zip(owners, outs):
                parts = o.split('\n--\n')
                for k, p in zip(part, parts + ['?missing'] * (len(part) - len(parts))):
                    outs_model[k] = p
        for k, (kind, what, mask, text) in enumerate(rs):
            report.corr_case('pipeline', {'kind': kind, 'what': what, 'mask': mask, 'charset': charset, 'exclude': exclude,
                                          'text': text[:3000]}, outs_model[k], impl[k])


def documents(rng, n, thorough=False):
    names = walk_gen.DOC_MAPS if thorough else walk_gen.QUICK_MAPS
    return pipe_gen.gen_documents(rng, n, names)
