"""Generators of X12 documents as abstract segment lists, their encodings and mutations."""

DELIM_SETS = [('~', '*', ':'), ('~', '*', '>'), ('\n', '|', '^'), ('!', '+', '.'), ('\x1c', '\x1d', '\x1f'),
              ('~', '&', '!'), ('\r', '*', ':'), ('~', '*', '\\')]

LINE_CONVS = ['', '\n', '\r\n', '\r', '\n\n']


def isa(icn, d, icvn='00401', rep=None, usage='T', sender='ZZ000', receiver='ZZ001', ack='0'):
    """a 16-element ISA with the standard field widths; icn is a string (padded to 9)"""
    e = d[1]
    rep = rep if rep is not None else ('U' if icvn == '00401' else '^')
    fields = ['ISA', '00', ' ' * 10, '00', ' ' * 10, 'ZZ', sender.ljust(15), 'ZZ', receiver.ljust(15),
              '030828', '1128', rep, icvn, icn.rjust(9, '0')[:9] if icn.isdigit() else icn.ljust(9)[:9], ack, usage, d[2]]
    return e.join(fields)


def encode(segs, d, conv=''):
    """segs: list of segment texts without terminator, already using d's separators"""
    return ''.join(s + d[0] + conv for s in segs)


def seg(d, sid, *elements):
    """elements: str or list of components"""
    out = [sid]
    for el in elements:
        out.append(d[2].join(el) if isinstance(el, (list, tuple)) else el)
    return d[1].join(out)


BAD_COUNTS = ['', ' 2', '+2', '2_0', 'x', '02', '-1', '1.0']


def envelope_doc(rng, d, icvn='00401', n_isa=1, max_groups=2, max_sets=2, max_body=4, faults=0.0,
                 hl=False, lx=False, fic='HC', vriic='004010X098A1', st01='837', body_maker=None):
    """a nested document; with probability `faults` each id/count is perturbed.
    returns list of segment texts"""
    out = []
    used_icn = []
    for _ in range(n_isa):
        icn = '%09d' % rng.randint(1, 999999999)
        if used_icn and rng.random() < faults:
            icn = rng.choice(used_icn)
        used_icn.append(icn)
        out.append(isa(icn, d, icvn))
        ngroups = rng.randint(0, max_groups)
        used_g = []
        for _g in range(ngroups):
            gcn = str(rng.randint(1, 99999))
            if rng.random() < faults / 3:
                gcn = rng.choice(['GRP1', 'A', '1x'])       # control numbers are compared as text, not as numbers
            if used_g and rng.random() < faults:
                gcn = rng.choice(used_g)
            used_g.append(gcn)
            out.append(seg(d, 'GS', fic, 'SENDER', 'RECV', '20030828', '1128', gcn, 'X', vriic))
            nsets = rng.randint(0, max_sets)
            used_s = []
            for _s in range(nsets):
                scn = '%04d' % rng.randint(1, 9999)
                if rng.random() < faults / 3:
                    scn = rng.choice(['SET1', 'B', '7y'])
                if used_s and rng.random() < faults:
                    scn = rng.choice(used_s)
                used_s.append(scn)
                out.append(seg(d, 'ST', st01, scn))
                body = body_maker(rng, d) if body_maker else plain_body(rng, d, max_body, hl, lx, faults)
                out.extend(body)
                cnt = str(len(body) + 2)
                if rng.random() < faults:
                    cnt = rng.choice(BAD_COUNTS + [str(len(body) + 1), str(len(body) + 3)])
                sid = scn if rng.random() >= faults else rng.choice(['0000', scn + '1', '', '0' + scn, scn.lstrip('0'), scn[:-1] + 'z', '+' + scn])
                out.append(seg(d, 'SE', cnt, sid))
            cnt = str(nsets) if rng.random() >= faults else rng.choice(BAD_COUNTS + [str(nsets + 1)])
            gid = gcn if rng.random() >= faults else rng.choice(['0', gcn + '0', '', '0' + gcn, '00' + gcn, gcn[:-1] + 'z', '+' + gcn])
            out.append(seg(d, 'GE', cnt, gid))
        cnt = str(ngroups) if rng.random() >= faults else rng.choice(BAD_COUNTS + [str(ngroups + 1)])
        iid = icn if rng.random() >= faults else rng.choice(['000000000', icn[:-1] + 'x', '', icn.lstrip('0'), '0' + icn, '+' + icn[1:]])
        out.append(seg(d, 'IEA', cnt, iid))
    return out


def plain_body(rng, d, max_body, hl, lx, faults):
    body = []
    n = rng.randint(0, max_body)
    hl_n = 0
    parents = []
    lx_n = 0
    for _ in range(n):
        r = rng.random()
        if hl and r < 0.4:
            hl_n += 1
            num = str(hl_n) if rng.random() >= faults else rng.choice(['', 'x', str(hl_n + 1), '0' + str(hl_n)])
            if parents and rng.random() < 0.7:
                par = str(rng.choice(parents)) if rng.random() >= max(faults, 0.08) else rng.choice(['99', 'x', '0', str(hl_n + 1), str(hl_n + 2), str(hl_n + 3)])
            else:
                par = ''
            parents.append(hl_n)
            body.append(seg(d, 'HL', num, par, rng.choice(['20', '22', '23']), '1'))
        elif lx and r < 0.6:
            if rng.random() < 0.3:
                body.append(seg(d, 'CLM', 'A%d' % rng.randint(1, 99), '100'))
                lx_n = 0
            lx_n += 1
            num = str(lx_n) if rng.random() >= faults else rng.choice(['', '01', str(lx_n + 1), 'x'])
            body.append(seg(d, 'LX', num))
        else:
            body.append(seg(d, rng.choice(['REF', 'NM1', 'DTP', 'BHT', 'N3']), rng.choice(['87', 'EI', '']), 'X%d' % rng.randint(0, 9)))
    return body


ENVELOPE = ('ISA', 'IEA', 'GS', 'GE', 'ST', 'SE')


def seg_id_of(s, d):
    return s.split(d[1], 1)[0]


def mutate_structure(rng, segs, d):
    """one structural mutation of the header/trailer arrangement"""
    segs = list(segs)
    idx = [i for i, s in enumerate(segs) if seg_id_of(s, d) in ENVELOPE and i > 0]
    if not idx:
        return segs
    kind = rng.choice(['delete', 'duplicate', 'move', 'retag', 'orphan', 'truncate', 'swap'])
    i = rng.choice(idx)
    if kind == 'delete':
        del segs[i]
    elif kind == 'duplicate':
        segs.insert(rng.randint(1, len(segs)), segs[i])
    elif kind == 'move':
        s = segs.pop(i)
        segs.insert(rng.randint(1, len(segs)), s)
    elif kind == 'retag':
        parts = segs[i].split(d[1])
        parts[0] = rng.choice([x for x in ENVELOPE if x != 'ISA'])
        segs[i] = d[1].join(parts)
    elif kind == 'orphan':
        t = rng.choice(['SE', 'GE', 'IEA'])
        segs.insert(rng.randint(1, len(segs)), seg(d, t, '1', '1'))
    elif kind == 'truncate':
        segs = segs[:rng.randint(1, len(segs))]
    elif kind == 'swap' and len(idx) > 1:
        j = rng.choice(idx)
        segs[i], segs[j] = segs[j], segs[i]
    return segs
