"""Implementation side of the whole-document correspondence check: runs the REAL
pyx12.x12n_document.x12n_document(param, src, fd_997, fd_html, fd_xmldoc) with io.StringIO sinks (None for the
sinks that are not requested) and prints exactly the canonical text of coq/Model/UnitsPipe.v (unit_pipeline):

    V:T | V:F | !Exn
    A:<hex of what fd_997 holds>      H:<hex of fd_html>      X:<hex of fd_xmldoc>

What is pinned for the duration of the call:
  - time.strftime / random.randint to the clock, as errh_impl.Patched does, plus the format of html.header()
    ('%m/%d/%Y %H:%M:%S');
  - pyx12.error_handler.err_handler is replaced by a subclass that blanks the MESSAGES of the X12Reader's errors
    (the calls made from inside handle_errors: Model/Reader.v carries codes only, Driver.err_call passes "") and
    replaces the message of a violated syntax note by "Syntax Error" (Model/Element.v abstracts that text); codes,
    values, order and everything else go to the real methods unchanged;
  - load_map_file records the map files loaded (the model needs them in its environment) and may reuse map objects.

The sinks are read after the call has returned, or, when it raised, after the exception object (whose traceback
keeps the frame of x12n_document, hence the x12xml_simple object, alive) has been released and the garbage
collector has run: that is what a caller that catches the exception finds in its file object."""
import gc
import io
import logging
import os
import sys

import core
import errh_impl
from errh_impl import US, hx
from implrun import tf

HTML_FMT = '%m/%d/%Y %H:%M:%S'
MASKS = ['---', 'A--', '-H-', '--X', 'AH-', 'A-X', '-HX', 'AHX']


def html_time_of(clock):
    """Pipeline.html_time_of: the header time of a clock whose readings agree"""
    d, t = clock[2], clock[3]
    return d[4:6] + '/' + d[6:8] + '/' + d[0:4] + ' ' + t[0:2] + ':' + t[2:4] + ':' + t[4:6]


class Pinned(errh_impl.Patched):
    def __init__(self, clock, htime):
        errh_impl.Patched.__init__(self, clock)
        self.table[HTML_FMT] = htime


_REAL = []


def _real_handler():
    import pyx12.error_handler
    if not _REAL:
        _REAL.append(pyx12.error_handler.err_handler)
    return _REAL[0]


def make_handler():
    real = _real_handler()

    class Normalised(real):
        def handle_errors(self, err_list):
            real.handle_errors(self, [(t, c, '', v, ln) for (t, c, _s, v, ln) in err_list])

        def ele_error(self, err_cde, err_str, bad_value, refdes=None):
            if not isinstance(refdes, (str, type(None))):
                err_str = 'Syntax Error'
            real.ele_error(self, err_cde, err_str, bad_value, refdes)

    return Normalised


_map_cache = {}


def origin_of(line):
    """which part of x12n_document an escaping exception came through (line of x12n_document.py, commit 8c53087)"""
    if 209 <= line <= 220:
        return {211: 'html.loop', 215: 'err_iter', 220: 'html.gen_seg'}.get(line, 'html')
    if line == 223:
        return 'xmldoc.seg'
    if line == 236:
        return 'html.footer'
    if line in (118, 122):
        return 'walker'
    if line == 199:
        return 'is_valid'
    if line in (149, 160, 177):
        return 'map not found'
    if line in (78, 150, 178):
        return 'load_map_file'
    if line == 97:
        return 'reader'
    return 'driver'


def impl_pipeline(text, mask, charset, exclude, clock, htime, dtd, cache_maps=True, map_path=None):
    """-> (canonical text, [map files loaded], info) with info = {'exn', 'ack', 'html', 'xml'} (the raw texts)"""
    import pyx12.error_handler
    import pyx12.map_if
    import pyx12.params
    import pyx12.x12n_document
    logging.disable(logging.CRITICAL)
    param = pyx12.params.params()
    param.set('charset', charset)
    param.set('exclude_external_codes', exclude)
    param.set('simple_dtd', dtd)
    loaded = []
    real_load = pyx12.map_if.load_map_file
    real_handler = _real_handler()

    def load(map_file, prm, mp=None):
        loaded.append(map_file)
        if not cache_maps:
            return real_load(map_file, prm, mp)
        key = (map_file, charset, exclude, mp)
        if key not in _map_cache:
            _map_cache[key] = real_load(map_file, prm, mp)
        return _map_cache[key]

    fd_ack = io.StringIO() if mask[0] == 'A' else None
    fd_html = io.StringIO() if mask[1] == 'H' else None
    fd_xml = io.StringIO() if mask[2] == 'X' else None
    pyx12.error_handler.err_handler = make_handler()
    pyx12.map_if.load_map_file = load
    exn = ''
    where = ''
    swallowed = []
    real_logexc = logging.Logger.exception

    def logexc(self, msg, *a, **kw):
        # the `except Exception: logger.exception(...)` around the 997 / 999 visitor
        swallowed.append('%s: %s' % (msg, type(sys.exc_info()[1]).__name__))
    logging.Logger.exception = logexc
    try:
        with Pinned(clock, htime if htime else html_time_of(clock)):
            try:
                ok = pyx12.x12n_document.x12n_document(param, io.StringIO(text), fd_ack, fd_html, fd_xml,
                                                       map_path=map_path)
                last = 'V:' + tf(ok)
            except Exception as e:  # noqa
                last = core.exn_name(e)
                exn = '%s: %s' % (type(e).__name__, str(e)[:100])
                tb = e.__traceback__
                line, inner = 0, ''
                while tb is not None:
                    fn = os.path.basename(tb.tb_frame.f_code.co_filename)
                    if fn == 'x12n_document.py':
                        line = tb.tb_lineno
                    inner = '%s:%s' % (fn, tb.tb_frame.f_code.co_name)
                    tb = tb.tb_next
                where = 'x12n_document.py:%d (%s) in %s' % (line, origin_of(line), inner)
                tb = None
    finally:
        logging.Logger.exception = real_logexc
        pyx12.error_handler.err_handler = real_handler
        pyx12.map_if.load_map_file = real_load
    gc.collect()
    ack = fd_ack.getvalue() if fd_ack is not None else ''
    html = fd_html.getvalue() if fd_html is not None else ''
    xml = fd_xml.getvalue() if fd_xml is not None else ''
    out = '\n'.join([last, 'A:' + hx(ack), 'H:' + hx(html), 'X:' + hx(xml)])
    return out, loaded, {'exn': exn, 'where': where, 'swallowed': swallowed, 'ack': ack, 'html': html, 'xml': xml,
                         'last': last}


def pipeline_request(charset, exclude, names, clock, htime, dtd, docs):
    """docs: [(mask, text)]; htime '' = derived from the clock (the model then runs run_pipeline itself)"""
    args = [charset, exclude, ','.join(names), errh_impl.encode_clock(clock), htime, dtd]
    for (mask, text) in docs:
        args += [mask, text]
    return ('pipeline', args)
