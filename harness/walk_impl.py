"""Implementation side of the walker / validation-driver correspondence check: drives the REAL
pyx12.map_walker.walk_tree and pyx12.x12n_document.x12n_document and prints exactly the canonical
text of coq/Model/UnitsWalk.v (unit_walk / unit_document).

walk:      impl_walk(map object, start ref, steps) with steps = [(delims, text, seg_count, cur_line, ls_id)]
           node references are the ones of mapser.node_refs (= Model/MapTree.v); () is the map root.
document:  impl_document(text, charset, exclude) runs x12n_document(param, io.StringIO(text), None, None, None)
           with pyx12.error_handler.err_handler replaced, for the duration of the call, by a subclass that
           records every call and forwards it to the real method (so that get_error_count() works).
           Messages of the calls made from inside handle_errors (the reader's errors) are printed as ""
           (Model/Reader.v does not model them); syntax errors are printed as mapser.RecErrh prints them
           (Model/Element.v: message "Syntax Error", refdes None).
           load_map_file is wrapped to record which map files were loaded (the model needs them in its
           environment) and, optionally, to reuse already loaded map objects."""
import io
import logging

import core
import mapser
from implrun import hx, opt, tf, seg_struct


def show_ref(r):
    return '.'.join(str(i) for i in r)


def show_xsg(sg):
    return hx(sg.seg_term + sg.ele_term + sg.subele_term) + '/' + seg_struct(sg)


def show_ninfo(n):
    return opt(hx, n.name) + ':' + str(n.pos)


# ---------------------------------------------------------------- walk

class WalkRec(object):
    """the two methods the walker calls on the error handler"""

    def __init__(self):
        self.ev = []

    def add_seg(self, map_node, seg_data, seg_count, cur_line, ls_id):
        self.ev.append(','.join(['A', 'N' if map_node is None else 'S' + show_ninfo(map_node), show_xsg(seg_data),
                                 str(seg_count), str(cur_line), opt(hx, ls_id)]))

    def seg_error(self, err_cde, err_str, err_value=None, src_line=None):
        self.ev.append(','.join(['E', err_cde, hx(err_str), opt(hx, err_value)]))


_refmaps = {}


def ref_table(m):
    """id(node) -> ref for loops and segments of a loaded map"""
    key = id(m)
    if key not in _refmaps:
        t = {id(m): ()}
        for r, n in mapser.node_refs(m):
            if n.is_loop() or n.is_segment():
                t[id(n)] = r
        _refmaps[key] = (m, t)
    return _refmaps[key][1]


def impl_walk(m, start, steps):
    import pyx12.segment
    from pyx12.map_walker import walk_tree
    table = ref_table(m)
    node = m if len(start) == 0 else mapser.node_by_ref(m, start)
    walker = walk_tree()
    out = []
    for (dl, text, seg_count, cur_line, ls_id) in steps:
        sg = pyx12.segment.Segment(text, dl[0], dl[1], dl[2])
        rec = WalkRec()
        try:
            (n, pop, push) = walker.walk(node, sg, rec, seg_count, cur_line, ls_id)
            out.append('|'.join(['N' if n is None else 'S' + show_ref(table[id(n)]),
                                 ','.join(show_ref(table[id(p)]) for p in pop),
                                 ','.join(show_ref(table[id(p)]) for p in push),
                                 '&'.join(rec.ev)]))
            if n is not None:
                node = n
        except Exception as e:  # noqa
            out.append(core.exn_name(e) + '|' + '&'.join(rec.ev))
    out.append('C:' + ','.join('%s=%d' % (hx(k.format()), v) for k, v in walker.counter._dict.items()) +
               '|M:%d' % len(walker.mandatory_segs_missing))
    return '\n'.join(out)


def walk_request(name, exclude, charset, sequences):
    """sequences: [(start ref, steps)]; the model answers with the sequences' texts joined by a line '--'"""
    args = [name, exclude, charset]
    for (start, steps) in sequences:
        args += ['@', show_ref(start)]
        for (dl, text, seg_count, cur_line, ls_id) in steps:
            args += [dl, text, str(seg_count), str(cur_line), 'N' if ls_id is None else 'S' + ls_id]
    return ('walk', args)


# ---------------------------------------------------------------- document

def show_src(src):
    return ','.join([opt(hx, src.get_isa_id()), opt(hx, src.get_gs_id()), opt(hx, src.get_st_id()),
                     opt(str, src.get_cur_line()), str(src.st_count)])


def make_recorder(trace):
    import pyx12.error_handler
    real = _real_handler()

    class RecHandler(real):
        def __init__(self):
            real.__init__(self)
            self._in_handle = 0
            self._nested = 0          # gs_error / st_error fall back to isa_error internally (fix 4741cca): not a driver call

        def _msg(self, m):
            return hx('' if self._in_handle else m)

        def handle_errors(self, err_list):
            self._in_handle += 1
            try:
                real.handle_errors(self, err_list)
            finally:
                self._in_handle -= 1

        def add_isa_loop(self, seg_data, src):
            trace.append(','.join(['I', show_xsg(seg_data), show_src(src)]))
            real.add_isa_loop(self, seg_data, src)

        def add_gs_loop(self, seg_data, src):
            trace.append(','.join(['G', show_xsg(seg_data), show_src(src)]))
            real.add_gs_loop(self, seg_data, src)

        def add_st_loop(self, seg_data, src):
            trace.append(','.join(['T', show_xsg(seg_data), show_src(src)]))
            real.add_st_loop(self, seg_data, src)

        def add_seg(self, map_node, seg_data, seg_count, cur_line, ls_id):
            trace.append(','.join(['S', 'N' if map_node is None else 'S' + show_ninfo(map_node), show_xsg(seg_data),
                                   str(seg_count), str(cur_line), opt(hx, ls_id)]))
            real.add_seg(self, map_node, seg_data, seg_count, cur_line, ls_id)

        def add_ele(self, map_node):
            pc = map_node.parent.is_composite()
            trace.append(','.join(['L', opt(hx, map_node.data_ele), opt(hx, map_node.name), str(map_node.seq),
                                   tf(pc), str(map_node.parent.seq if pc else 0)]))
            real.add_ele(self, map_node)

        def isa_error(self, err_cde, err_str):
            if not self._nested:
                trace.append(','.join(['i', err_cde, self._msg(err_str)]))
            real.isa_error(self, err_cde, err_str)

        def gs_error(self, err_cde, err_str):
            trace.append(','.join(['g', err_cde, self._msg(err_str)]))
            self._nested += 1
            try:
                real.gs_error(self, err_cde, err_str)
            finally:
                self._nested -= 1

        def st_error(self, err_cde, err_str):
            trace.append(','.join(['t', err_cde, self._msg(err_str)]))
            self._nested += 1
            try:
                real.st_error(self, err_cde, err_str)
            finally:
                self._nested -= 1

        def seg_error(self, err_cde, err_str, err_value=None, src_line=None):
            trace.append(','.join(['s', err_cde, self._msg(err_str), opt(hx, err_value), opt(str, src_line)]))
            real.seg_error(self, err_cde, err_str, err_value, src_line)

        def ele_error(self, err_cde, err_str, bad_value, refdes=None):
            if not isinstance(refdes, (str, type(None))):
                trace.append(','.join(['e', err_cde, hx('Syntax Error'), opt(hx, bad_value), 'N']))
            else:
                trace.append(','.join(['e', err_cde, hx(err_str), opt(hx, bad_value), opt(hx, refdes)]))
            real.ele_error(self, err_cde, err_str, bad_value, refdes)

        def close_isa_loop(self, node, seg, src):
            trace.append(','.join(['X', show_ninfo(node), show_xsg(seg), show_src(src)]))
            real.close_isa_loop(self, node, seg, src)

        def close_gs_loop(self, node, seg, src):
            trace.append(','.join(['Y', show_ninfo(node), show_xsg(seg), show_src(src)]))
            real.close_gs_loop(self, node, seg, src)

        def close_st_loop(self, node, seg, src):
            trace.append(','.join(['Z', show_ninfo(node), show_xsg(seg), show_src(src)]))
            real.close_st_loop(self, node, seg, src)

    return RecHandler


_REAL = []


def _real_handler():
    import pyx12.error_handler
    if not _REAL:
        _REAL.append(pyx12.error_handler.err_handler)
    return _REAL[0]


_map_cache = {}


def impl_document(text, charset='B', exclude='', cache_maps=True, map_path=None):
    """-> (canonical text, [map files loaded in order])"""
    import pyx12.error_handler
    import pyx12.map_if
    import pyx12.params
    import pyx12.x12n_document
    logging.disable(logging.CRITICAL)
    param = pyx12.params.params()
    param.set('charset', charset)
    param.set('exclude_external_codes', exclude)
    trace = []
    loaded = []
    real_load = pyx12.map_if.load_map_file
    real_handler = _real_handler()

    def load(map_file, prm, mp=None):
        loaded.append(map_file)
        if not cache_maps:
            return real_load(map_file, prm, mp)
        key = (map_file, charset, exclude, mp)
        if key not in _map_cache:
            _map_cache[key] = real_load(map_file, prm, mp)
        return _map_cache[key]
    pyx12.error_handler.err_handler = make_recorder(trace)
    pyx12.map_if.load_map_file = load
    try:
        try:
            ok = pyx12.x12n_document.x12n_document(param, io.StringIO(text), None, None, None, map_path=map_path)
            last = 'V:' + tf(ok)
        except Exception as e:  # noqa
            last = core.exn_name(e)
    finally:
        pyx12.error_handler.err_handler = real_handler
        pyx12.map_if.load_map_file = real_load
    return '\n'.join(trace + [last]), loaded


def document_request(charset, exclude, names, docs):
    return ('document', [charset, exclude, ','.join(names)] + list(docs))
