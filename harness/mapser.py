"""Serialise the XML files of /repo/pyx12/map for the extracted model (same tree shape as tools/gen/maps.py:
text kept for elements without children only) and dump the implementation's loaded maps in the canonical
form of coq/Model/UnitsMap.v."""
import os
import xml.etree.ElementTree as et

import core
from implrun import hx, opt

MAPDIR = os.path.join(core.REPO, 'pyx12', 'map')


def field(s):
    return '%d:%s' % (len(s), s)


def ser(e):
    children = [c for c in e if isinstance(c.tag, str)]
    text = None if children else e.text
    out = ['X', field(e.tag), '%d;' % len(e.attrib)]
    for k, v in e.attrib.items():
        out.append(field(k))
        out.append(field(v))
    out.append('N' if text is None else 'T' + field(text))
    out.append('%d;' % len(children))
    for c in children:
        out.append(ser(c))
    return ''.join(out)


_cache = {}


def ser_file(name, mapdir=None):
    key = (name, mapdir)
    if key not in _cache:
        _cache[key] = ser(et.parse(os.path.join(mapdir or MAPDIR, name)).getroot())
    return _cache[key]


def preload(names, mapdir=None):
    return [(n, ser_file(n, mapdir)) for n in ['dataele.xml', 'codes.xml', 'maps.xml'] + list(names)]


def ostr(v):
    return opt(hx, v)


def dump_elem(e):
    return ','.join(['E', ostr(e.id), ostr(e.data_ele), ostr(e.usage), str(e.seq), ostr(e.path), ostr(e.max_use),
                     ostr(e.res), ostr(e.external_codes), '.'.join(ostr(c) for c in e.valid_codes)])


def dump_node(n, out):
    if n.is_segment():
        out.append(','.join(['S', ostr(n.id), ostr(n.path), ostr(n.type), ostr(n.usage), str(n.pos), ostr(n.max_use),
                             ostr(n.repeat), ostr(n.end_tag),
                             ';'.join(sy[0] + '.'.join(str(i) for i in sy[1:]) for sy in n.syntax)]))
        for c in n.children:
            if c.is_composite():
                out.append(','.join(['C', ostr(c.id), ostr(c.refdes), ostr(c.data_ele), ostr(c.usage), str(c.seq), str(c.repeat)]))
                for e in c.children:
                    out.append(dump_elem(e))
            else:
                out.append(dump_elem(c))
    else:
        out.append(','.join(['L', ostr(n.id), ostr(n.type), ostr(n.usage), str(n.pos), ostr(n.repeat)]))
        for k in sorted(n.pos_map):
            for ch in n.pos_map[k]:
                dump_node(ch, out)
        out.append('/L')


def impl_mapdump(name, exclude='', charset='B', map_path=None):
    import pyx12.map_if
    import pyx12.params
    try:
        param = pyx12.params.params()
        if exclude:
            param.set('exclude_external_codes', exclude)
        param.set('charset', charset)
        m = pyx12.map_if.load_map_file(name, param, map_path)
    except Exception as e:  # noqa
        return core.exn_name(e), None
    out = [','.join(['M', ostr(m.id), ostr(m.icvn)])]
    for k in sorted(m.pos_map):
        for ch in m.pos_map[k]:
            dump_node(ch, out)
    return '|'.join(out), m


def node_refs(m):
    """(ref tuple, node) for every loop/segment/element/composite/sub-element, refs as in Model/MapTree.v"""
    out = []

    def kids(n):
        return [ch for k in sorted(n.pos_map) for ch in n.pos_map[k]]

    def walk(n, ref):
        out.append((ref, n))
        if n.is_segment():
            for i, c in enumerate(n.children):
                out.append((ref + (i,), c))
                if c.is_composite():
                    for j, e in enumerate(c.children):
                        out.append((ref + (i, j), e))
        else:
            for i, ch in enumerate(kids(n)):
                walk(ch, ref + (i,))
    for i, ch in enumerate(kids(m)):
        walk(ch, (i,))
    return out


# ---------------------------------------------------------------- element / segment validation on the implementation

class RecErrh(object):
    """records the calls element/composite/segment validation makes on the error handler"""

    def __init__(self):
        self.ev = []

    def add_ele(self, node):
        pc = node.parent.is_composite()
        self.ev.append(','.join(['A', ostr(node.data_ele), str(node.seq), 'T' if pc else 'F', str(node.parent.seq if pc else 0)]))

    def ele_error(self, code, msg, value, refdes=None):
        if not isinstance(refdes, (str, type(None))):
            # syntax errors pass the element position (an int) and the full syntax message
            self.ev.append(','.join(['E', code, hx('Syntax Error'), ostr(value), 'N']))
            return
        self.ev.append(','.join(['E', code, hx(msg), ostr(value), ostr(refdes)]))


def node_by_ref(m, ref):
    n = m
    ref = list(ref)
    while ref:
        i = ref.pop(0)
        if n.is_map_root() or n.is_loop():
            n = [ch for k in sorted(n.pos_map) for ch in n.pos_map[k]][i]
        else:
            n = n.children[i]
    return n


def impl_segvalid(m, ref, delims, text):
    import pyx12.segment
    node = node_by_ref(m, ref)
    sg = pyx12.segment.Segment(text, delims[0], delims[1], delims[2])
    errh = RecErrh()
    try:
        ok = node.is_valid(sg, errh)
    except Exception as e:  # noqa
        return core.exn_name(e)
    return '|'.join(['T' if ok else 'F'] + errh.ev)


def impl_elevalid(m, ref, dv):
    """dv: None or list of component values"""
    import pyx12.segment
    node = node_by_ref(m, ref)
    if dv is None:
        data = None
    elif node.is_composite() or not node.parent.is_composite():
        data = pyx12.segment.Composite(':'.join(dv), ':')
    else:
        data = pyx12.segment.Element(dv[0])
    errh = RecErrh()
    try:
        ok = node.is_valid(data, errh)
    except Exception as e:  # noqa
        return core.exn_name(e)
    return '|'.join(['T' if ok else 'F'] + errh.ev)
