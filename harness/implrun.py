"""Run the real implementation and print results in the same canonical form as
coq/Model/Units.v + Show.v."""
import core


def hx(s):
    return s.encode('latin-1', 'replace').hex()


def opt(f, v):
    return 'N' if v is None else 'S' + f(v)


def tf(b):
    return 'T' if b else 'F'


# ---------------------------------------------------------------- path

def impl_path(s):
    from pyx12.path import X12Path
    try:
        p = X12Path(s)
        return '|'.join([
            tf(p.relative),
            ','.join(hx(x) for x in p.loop_list),
            opt(hx, p.seg_id), opt(hx, p.id_val), opt(str, p.ele_idx), opt(str, p.subele_idx),
            hx(p.format()), hx(p.format_refdes()), tf(p.empty())])
    except Exception as e:  # noqa
        return core.exn_name(e)


def impl_path_eq(a, b):
    from pyx12.path import X12Path
    try:
        return tf(X12Path(a) == X12Path(b))
    except Exception as e:  # noqa
        return core.exn_name(e)


def impl_child_path(a, b):
    from pyx12.path import X12Path
    try:
        return tf(X12Path(a).is_child_path(b))
    except Exception as e:  # noqa
        return core.exn_name(e)


# ---------------------------------------------------------------- segment

def impl_segment(delims, seg_str, ops):
    """ops: list of str, see Units.seg_op"""
    import pyx12.segment
    st, et, sub = delims[0], delims[1], delims[2]
    out = []
    try:
        sg = pyx12.segment.Segment(seg_str, st, et, sub)
    except Exception as e:  # noqa
        return core.exn_name(e)
    for op in ops:
        c, rest = op[0], op[1:]
        try:
            if c == 'G':
                out.append(opt(hx, sg.get_value(rest)))
            elif c == 'S':
                rd, v = rest.split('\x1f', 1)
                sg.set(rd, v)
                out.append('ok')
            elif c == 'F':
                out.append(hx(sg.format(st, et, sub)))
            elif c == 'L':
                out.append(str(len(sg)))
            elif c == 'E':
                out.append(tf(sg.is_empty()))
            elif c == 'V':
                out.append(tf(sg.is_seg_id_valid()))
            elif c == 'C':
                sg = sg.copy()
                out.append('ok')
            elif c == 'I':
                out.append(opt(hx, sg.get_seg_id()))
            else:
                out.append('?op')
        except Exception as e:  # noqa
            out.append(core.exn_name(e))
    return '|'.join(out)


# ---------------------------------------------------------------- syntax

def impl_syntax(delims, seg_str, code, idxs):
    import pyx12.segment
    from pyx12.syntax import is_syntax_valid
    st, et, sub = delims[0], delims[1], delims[2]
    try:
        sg = pyx12.segment.Segment(seg_str, st, et, sub)
        (ok, _err) = is_syntax_valid(sg, [code] + list(idxs))
        return tf(ok)
    except Exception as e:  # noqa
        return core.exn_name(e)


class _FakeSeg(object):
    """just enough of segment_if to call _split_syntax"""


def impl_split_syntax(s):
    from pyx12.map_if import segment_if
    try:
        r = segment_if._split_syntax(None, s)
        if r is None:
            return 'N'
        return 'S' + r[0] + ',' + ','.join(str(i) for i in r[1:])
    except Exception as e:  # noqa
        return core.exn_name(e)


# ---------------------------------------------------------------- python runtime

def impl_pyint(s):
    try:
        return 'S' + str(int(s))
    except ValueError:
        return 'N'


def impl_pystr(op, *a):
    if op == 'lstrip':
        return hx(a[0].lstrip())
    if op == 'rstrip':
        return hx(a[0].rstrip())
    if op == 'strip':
        return hx(a[0].strip())
    if op == 'lstripnl':
        return hx(a[0].lstrip('\n\r'))
    if op == 'split':
        return ','.join(hx(x) for x in a[0].split(a[1]))
    if op == 'find':
        i = a[0].find(a[1])
        return 'N' if i < 0 else 'S' + str(i)
    if op == 'count':
        return str(a[0].count(a[1]))
    if op == 'replace':
        return hx(a[0].replace(a[1], a[2]))
    if op == 'lt':
        return tf(a[0] < a[1])
    return '?op'


# ---------------------------------------------------------------- raw / reader / writer

class ScheduledStream(object):
    """a readable text stream whose k-th read(n) returns min(n, cap_k, remaining) characters"""

    def __init__(self, text, sched):
        self.text = text
        self.pos = 0
        self.sched = list(sched)
        self.closed = False

    def read(self, n=-1):
        if n is None or n < 0:
            n = len(self.text) - self.pos
        cap = max(1, self.sched.pop(0)) if self.sched else n
        k = min(n, cap)
        out = self.text[self.pos:self.pos + k]
        self.pos += len(out)
        return out

    def close(self):
        self.closed = True


def show_rawst(r):
    rep = getattr(r, 'repetition_term', None)
    return ','.join([hx(r.seg_term), hx(r.ele_term), hx(r.subele_term), opt(hx, rep), r.icvn])


def impl_raw(text, sched):
    from pyx12.rawx12file import RawX12File
    try:
        r = RawX12File(ScheduledStream(text, sched))
        lines = list(r)
        return '|'.join([show_rawst(r)] + [hx(x) for x in lines])
    except Exception as e:  # noqa
        return core.exn_name(e)


def seg_struct(sg):
    parts = [opt(hx, sg.get_seg_id())]
    for comp in sg.elements:
        parts.append('.'.join(hx(e.get_value()) for e in comp.elements))
    return ';'.join(parts)


def show_errs(errs):
    return ','.join('/'.join([e[0], e[1], opt(str, e[4])]) for e in errs)


def impl_reader(lx, text, sched, stream=None):
    import pyx12.x12file
    try:
        src = pyx12.x12file.X12Reader(stream if stream is not None else ScheduledStream(text, sched))
    except Exception as e:  # noqa
        return core.exn_name(e)
    src.check_837_lx = bool(lx)
    out = [','.join([hx(src.seg_term), hx(src.ele_term), hx(src.subele_term), opt(hx, src.repetition_term), src.icvn])]
    try:
        for seg in src:
            out.append(seg_struct(seg) + ':' + show_errs(src.pop_errors()))
        src.cleanup()
        out.append('C' + show_errs(src.pop_errors()))
    except Exception as e:  # noqa
        out.append(core.exn_name(e))
    return '|'.join(out)


def impl_writer(wd, rep, eol, ds, lx, ops):
    """ops: 'W<segment text>' or 'C'"""
    import io
    import pyx12.x12file
    import pyx12.segment
    fd = io.StringIO()
    w = pyx12.x12file.X12Writer(fd, wd[0], wd[1], wd[2], eol, rep)
    w.check_837_lx = bool(lx)
    out = []
    mark = 0
    for op in ops:
        try:
            if op[0] == 'W':
                w.Write(pyx12.segment.Segment(op[1:], ds[0], ds[1], ds[2]))
            elif op[0] == 'C':
                w.Close()
            else:
                out.append('?op')
                break
        except Exception as e:  # noqa
            out.append(core.exn_name(e))
            break
        text = fd.getvalue()
        new = text[mark:]
        mark = len(text)
        # one entry per written segment (each ends with eol)
        if new:
            pieces = split_written(new, wd[0], eol)
            out.extend(hx(p) for p in pieces)
    return '|'.join(out)


def split_written(new, seg_term, eol):
    """split the text written by one call into the individual _write_segment outputs"""
    sep = seg_term + eol
    pieces = []
    i = 0
    while i < len(new):
        j = new.find(sep, i)
        if j < 0:
            pieces.append(new[i:])
            break
        pieces.append(new[i:j + len(sep)])
        i = j + len(sep)
    return pieces
