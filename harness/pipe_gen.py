"""Generators for the whole-document correspondence check (harness/pipe_check.py).

Documents come from walk_gen (corpus documents of pyx12/test/x12testdata.py, documents derived from a map, body and
envelope mutations, several interchanges / groups / sets, synthetic maps) plus what the output sinks are sensitive to:
  special     data values with  < > & " '  and blanks (escaping in the HTML and XML reports)
  delims      delimiters that are themselves markup characters:  <  &  >  |  ^  '  "
  overflow    more elements / more sub-elements than the map node has (x12xml_simple raises)
  unplaced    segments the walker cannot place (the sinks then see the PREVIOUS node)
  nogroup     interchanges without GS / without ST, bodies directly under ISA or GS
  ack input   997 / 999 documents (GS01 = FA: no acknowledgement is written)
  notx12      empty text, text that is not X12, a truncated ISA
Each case is (kind, what, text); one random.Random drives everything."""
import docgen
import mapsrc
import walk_gen

SPECIAL = ['<', '>', '&', '"', "'", ' ', 'a<b', 'x&y', '&amp;', '<b>', "it's", '"q"', '  ', ' lead', 'trail ', 'A B',
           '<&>', "'\"", '&lt;', 'R&D;LAB', 'A&#65;B', '&#x41;', 'AT&amp;T', '&quot;', '&x;y', 'a  b', '<script>x</script>', '&&', '>>', "''", ']]>', '<!--', 'A&B<C>D\'E"F']

ODD_DELIMS = [('<', '&', '>'), ('>', '<', '&'), ('|', '^', '>'), ('^', '|', '~'), ('&', '*', ':'), ('~', '<', ':'),
              ('~', '*', '<'), ('~', '*', '&'), ("'", '+', ':'), ('~', '*', '"'), ('~', "'", ':'), ('~', '*', "'"),
              ('\n', '|', '^'), ('~', '|', '>'), ('>', '*', ':'), ('~', '&', '<'), ('"', '*', ':')]


def clean(v, d):
    for c in d:
        v = v.replace(c, '')
    return v


def special_values(rng, segs, d, n=None):
    """put markup characters and blanks into element values (body and envelope)"""
    segs = list(segs)
    idx = [i for i in range(1, len(segs))]
    if not idx:
        return segs
    for _ in range(n or rng.choice([1, 2, 3, 6])):
        i = rng.choice(idx)
        parts = segs[i].split(d[1])
        if len(parts) < 2:
            continue
        k = rng.randint(1, len(parts) - 1)
        v = clean(rng.choice(SPECIAL), d)
        r = rng.random()
        if r < 0.5:
            parts[k] = v
        elif r < 0.75:
            parts[k] = parts[k] + v
        else:
            sub = parts[k].split(d[2])
            sub[rng.randrange(len(sub))] = v
            parts[k] = d[2].join(sub)
        segs[i] = d[1].join(parts)
    return segs


def overflow(rng, segs, d):
    """more elements or more sub-elements than any node has"""
    segs = list(segs)
    idx = walk_gen.body_indices(segs, d) or list(range(1, len(segs)))
    if not idx:
        return segs, 'none'
    if rng.random() < 0.25:
        idx = list(range(1, len(segs)))          # envelope segments too
    i = rng.choice(idx)
    e, s = d[1], d[2]
    r = rng.random()
    if r < 0.4:
        segs[i] = segs[i] + e.join([''] + ['X'] * rng.choice([1, 2, 25]))
        return segs, 'elements'
    parts = segs[i].split(e)
    if len(parts) < 2:
        segs[i] = segs[i] + e + 'A' + s + 'B'
        return segs, 'subelements'
    k = rng.randint(1, len(parts) - 1)
    if r < 0.8:
        parts[k] = (parts[k] or 'A') + s + s.join(['B'] * rng.choice([1, 2, 9]))
        kind = 'subelements'
    else:
        parts[k] = s.join(['', '', 'C'][:rng.choice([2, 3])])      # a composite with empty leading components
        kind = 'empty-subelements'
    segs[i] = e.join(parts)
    return segs, kind


def unplaced(rng, segs, d):
    """segments the walker cannot place, at several places (also first in a loop and right after ST / GS / ISA)"""
    segs = list(segs)
    e = d[1]
    for _ in range(rng.choice([1, 1, 2, 4])):
        i = rng.randint(1, len(segs))
        segs.insert(i, e.join([rng.choice(['ZZZ', 'QQ', 'A1B', 'X', 'TOOLONG', 'N9', 'LS', 'LE']), clean(rng.choice(SPECIAL), d), '1']))
    return segs


def nogroup(rng, d, icvn):
    """interchanges with parts of the nesting missing"""
    icn = '%09d' % rng.randint(1, 999999999)
    isa = docgen.isa(icn, d, icvn)
    vr = '004010X098A1' if icvn == '00401' else '005010X222A1'
    gs = docgen.seg(d, 'GS', 'HC', 'S', 'R', '20040229', '1230', '7', 'X', vr)
    st = docgen.seg(d, 'ST', '837', '0001')
    bht = docgen.seg(d, 'BHT', '0019', '00', 'A1', '20040229', '1230', 'CH')
    ref = docgen.seg(d, 'REF', '87', vr)
    se = docgen.seg(d, 'SE', '3', '0001')
    ge = docgen.seg(d, 'GE', '1', '7')
    iea = docgen.seg(d, 'IEA', '1', icn)
    shapes = [[isa], [isa, iea], [isa, gs], [isa, gs, ge, iea], [isa, ref, iea], [isa, st, bht, se, iea], [isa, gs, bht, ge, iea],
              [isa, gs, st], [isa, gs, st, se, ge, iea], [isa, gs, st, bht], [isa, gs, st, bht, se], [isa, gs, st, bht, se, ge],
              [isa, iea, isa, iea], [isa, gs, ge, gs, ge, iea], [isa, ge, iea], [isa, se], [isa, isa], [isa, gs, gs],
              [isa, gs, st, st, bht, se, ge, iea], [isa, gs, st, bht, ref, se, st, bht, se, ge, iea]]
    k = rng.randrange(len(shapes))
    return shapes[k], 'shape%d' % k


def notx12(rng):
    good = docgen.isa('000000001', ('~', '*', ':'))
    return rng.choice(['', ' ', '\n', 'hello', 'ISA', 'ISA*', good[:50], good[:105], good, good + '~', 'XSA' + good[3:] + '~',
                       good + '~' + 'IEA*0*000000001~', '<html></html>', good.replace('*', '~') + '~', 'ISA' * 40,
                       '\x00' * 120, good[:103] + '~~~'])


def multi_interchange(rng, names):
    """two or three interchanges in one file; the first one is left as generated, the errors are put into the
    later ones (the HTML report collects the new error nodes of every interchange with one iterator)"""
    d = walk_gen.pick_delims(rng) if rng.random() < 0.8 else rng.choice(ODD_DELIMS)
    out = []
    kinds = []
    for k in range(rng.choice([2, 2, 3])):
        name = rng.choice(names)
        segs, _d = walk_gen.map_document(rng, name, d=d, n_gs=rng.choice([1, 1, 2]), n_st=rng.choice([1, 1, 2]),
                                         p_seg=0.1, p_loop=0.15, max_segs=20)
        if k > 0:
            m = mapsrc.load(name)
            for _ in range(rng.choice([1, 2, 3])):
                r = rng.random()
                if r < 0.45:
                    segs, mk = walk_gen.mutate_body(rng, segs, d, m, rng.choice(
                        ['delete', 'duplicate', 'retag', 'unknown', 'missing_required', 'bad_qual', 'blank_elem', 'bad_value',
                         'lead_space', 'insert_any', 'swap']))
                elif r < 0.65:
                    segs, mk = walk_gen.mutate_envelope(rng, segs, d, rng.choice(['bad_counts', 'structure', 'dup_ids', 'st_id']))
                elif r < 0.85:
                    segs, mk = special_values(rng, segs, d), 'special'
                else:
                    segs, mk = unplaced(rng, segs, d), 'unplaced'
                kinds.append('%d:%s' % (k, mk))
        out.extend(segs)
    return out, d, 'interchanges mut=' + '+'.join(kinds)


def corpus_docs():
    from pyx12.test.x12testdata import datafiles
    return [(k, v['source']) for k, v in sorted(datafiles.items()) if isinstance(v, dict) and 'source' in v]


def split_corpus(text):
    d = (text[105], text[3], text[104])
    segs = [s.lstrip('\r\n') for s in text.split(d[0]) if s.strip('\r\n') != '']
    return segs, d


def gen_documents(rng, n, names):
    """n cases (kind, what, text) on the shipped maps"""
    corpus = corpus_docs()
    cases = []
    for i in range(n):
        name = names[i % len(names)]
        m = mapsrc.load(name)
        r = rng.random()
        if r < 0.05:
            ck, text = rng.choice(corpus)
            segs, d = split_corpus(text)
            mk = 'asis'
            if rng.random() < 0.7:
                segs, mk = walk_gen.mutate_body(rng, segs, d, m) if rng.random() < 0.6 else walk_gen.mutate_envelope(rng, segs, d)
            if rng.random() < 0.3:
                segs = special_values(rng, segs, d)
                mk += '+special'
            cases.append(('corpus', 'corpus=%s mut=%s' % (ck, mk), walk_gen.encode_document(rng, segs, d)))
            continue
        if r < 0.09:
            cases.append(('notx12', 'notx12', notx12(rng)))
            continue
        if r < 0.16:
            d = walk_gen.pick_delims(rng) if rng.random() < 0.7 else rng.choice(ODD_DELIMS)
            segs, mk = nogroup(rng, d, rng.choice(['00401', '00501']))
            if rng.random() < 0.3:
                segs = unplaced(rng, segs, d)
                mk += '+unplaced'
            cases.append(('nogroup', mk, walk_gen.encode_document(rng, segs, d)))
            continue
        if r < 0.22:
            segs, d = walk_gen.mixed_document(rng, names)
            if rng.random() < 0.4:
                segs, mk = walk_gen.mutate_envelope(rng, segs, d)
            else:
                mk = 'none'
            cases.append(('mixed', 'mixed mut=%s' % mk, walk_gen.encode_document(rng, segs, d)))
            continue
        if r < 0.30:
            segs, d, mk = multi_interchange(rng, names)
            cases.append(('multiisa', mk, walk_gen.encode_document(rng, segs, d)))
            continue
        d = None
        if rng.random() < 0.25:
            d = rng.choice(ODD_DELIMS)
        shape = rng.random()
        n_isa, n_gs, n_st = 1, 1, 1
        if shape < 0.15:
            n_isa, n_gs, n_st = rng.choice([(2, 1, 1), (1, 2, 1), (1, 1, 2), (2, 2, 2), (1, 3, 1), (1, 1, 3)])
        small = n_isa * n_gs * n_st > 1
        segs, d = walk_gen.map_document(rng, name, d=d, n_isa=n_isa, n_gs=n_gs, n_st=n_st,
                                        p_seg=0.1 if small else rng.choice([0.1, 0.3, 0.5]),
                                        p_loop=0.15 if small else rng.choice([0.15, 0.3, 0.5]),
                                        max_segs=25 if small else rng.choice([30, 60, 100]))
        what = 'map=%s d=%r isa/gs/st=%d/%d/%d' % (name, ''.join(d), n_isa, n_gs, n_st)
        if name.startswith('278') and rng.random() < 0.3:
            segs, mk = walk_gen.mutate_envelope(rng, segs, d, 'bht_tspc')
            cases.append(('envmut', what + ' mut=' + mk, walk_gen.encode_document(rng, segs, d)))
        elif r < 0.34:
            cases.append(('map', what, walk_gen.encode_document(rng, segs, d)))
        elif r < 0.46:
            segs = special_values(rng, segs, d)
            cases.append(('special', what, walk_gen.encode_document(rng, segs, d)))
        elif r < 0.56:
            segs, mk = overflow(rng, segs, d)
            cases.append(('overflow', what + ' mut=' + mk, walk_gen.encode_document(rng, segs, d)))
        elif r < 0.62:
            segs = unplaced(rng, segs, d)
            cases.append(('unplaced', what, walk_gen.encode_document(rng, segs, d)))
        elif r < 0.82:
            kinds = []
            for _ in range(rng.choice([1, 1, 1, 2, 3])):
                segs, mk = walk_gen.mutate_body(rng, segs, d, m)
                kinds.append(mk)
            if rng.random() < 0.2:
                segs = special_values(rng, segs, d)
                kinds.append('special')
            cases.append(('bodymut', what + ' mut=' + '+'.join(kinds), walk_gen.encode_document(rng, segs, d)))
        else:
            kinds = []
            for _ in range(rng.choice([1, 1, 2])):
                segs, mk = walk_gen.mutate_envelope(rng, segs, d)
                kinds.append(mk)
            cases.append(('envmut', what + ' mut=' + '+'.join(kinds), walk_gen.encode_document(rng, segs, d)))
    return cases


def gen_synthetic(rng, tmp, n_maps, per_map=4):
    """(names, cases) on synthetic maps written to `tmp` (a map directory); cases as gen_documents"""
    import mapser
    names = walk_gen.write_synthetic_dir(rng, tmp, n_maps)
    cases = []
    d = ('~', '*', ':')
    # segments directly under the map root: after ISA_LOOP (TOP, pos 90) and, for html.loop(node.get_parent()) with
    # the map root as parent, BEFORE it (PRE, pos 5 or 10 = the position of ISA_LOOP: the first segment "in the loop" that the root is)
    import os
    for k, name in enumerate(names):
        if k >= len(walk_gen.CRAFTED) and k % 2 == 0:
            path = os.path.join(tmp, name)
            with open(path) as f:
                xml = f.read()
            if 'xid="TOP"' not in xml:
                xml = xml.replace('</transaction>', walk_gen._seg('TOP', 90, 'S', '2') + '</transaction>')
            if k % 4 == 0:
                xml = xml.replace('<loop xid="ISA_LOOP">', walk_gen._seg('PRE', 10 if k % 8 == 0 else 5, 'S', '2') + '<loop xid="ISA_LOOP">', 1)
            with open(path, 'w') as f:
                f.write(xml)
    for k, name in enumerate(names):
        dump, m = mapser.impl_mapdump(name, map_path=tmp)
        if m is None:
            continue
        head = [docgen.isa('000000001', d), docgen.seg(d, 'GS', 'SY', 'A', 'B', '20040229', '1230', '1', 'X', 'SYN%d' % k)]
        tail = ['GE*1*1', 'IEA*1*000000001']
        for body in (walk_gen.CRAFTED[k][1] if k < len(walk_gen.CRAFTED) else []):
            segs = head + ['ST*SYN*0001'] + body + ['SE*%d*0001' % (len(body) + 2)] + tail
            cases.append(('syn', 'map=%s crafted' % name, docgen.encode(segs, d)))
        for j in range(per_map):
            try:
                body = walk_gen.transaction(rng, m, d, '0001', p_seg=0.5, p_loop=0.6)
            except Exception:  # noqa
                body = ['ST*SYN*0001', 'SE*2*0001']
            segs = head + body + tail
            mk = 'none'
            r = rng.random()
            if r < 0.4:
                segs, mk = walk_gen.mutate_body(rng, segs, d, m)
            elif r < 0.5:
                segs = special_values(rng, segs, d)
                mk = 'special'
            elif r < 0.6:
                segs, mk = overflow(rng, segs, d)
            if rng.random() < 0.35:
                # a segment after IEA: the walker may place it directly under the map root (TOP) or not at all
                segs = segs + rng.choice([['TOP*1'], ['TOP*<&>'], ['ZZZ*1'], ['TOP'], ['PRE*1'], ['PRE*1', 'PRE*2'], ['TOP*1', 'PRE*1'],
                                          ['PRE*1', 'TOP*1', 'TOP*2', 'TOP*3']])
                mk += '+after-iea'
            cases.append(('syn', 'map=%s mut=%s' % (name, mk), docgen.encode(segs, d)))
    return names, cases


def gen_clock(rng):
    y, mo, dd = rng.randint(1990, 2035), rng.randint(1, 12), rng.randint(1, 28)
    h, mi, s = rng.randint(0, 23), rng.randint(0, 59), rng.randint(0, 59)
    return ('%02d%02d%02d' % (y % 100, mo, dd), '%02d%02d' % (h, mi), '%04d%02d%02d' % (y, mo, dd),
            '%02d%02d%02d' % (h, mi, s), rng.randint(10000000, 999999999))


def gen_htime(rng):
    return rng.choice(['', '', '02/29/2004 12:30:55', '<time>&', 'now', ' '])


def gen_dtd(rng):
    return rng.choice(['', '', '', 'http://example.org/x12simple.dtd', "a'b<c>&d", 'x'])
