"""Generators for the x12context correspondence check.

Documents
  corpus      pyx12/test/x12testdata.py `datafiles`, pyx12/examples/*.txt, pyx12/tests/*.txt, and every string
              literal that looks like an interchange in pyx12/test/test_*.py (the data of the library's own
              x12context tests); as is or with one of the body / envelope mutations of walk_gen
  map         walk_gen.map_document (documents derived from a map), plain, with high repeat probability (loops
              that repeat back-to-back), with several ST, mutated (walk_gen.mutate_body / mutate_envelope)
  mixed       walk_gen.mixed_document (several interchanges / maps in one file)

Loop ids (pick_loop_id): None; a loop id that occurs in the document (found by running the implementation once
  with loop_id=None and reading the map paths of the yielded nodes); any loop id of the map in use, including
  ISA_LOOP / GS_LOOP / ST_LOOP and the ones that do not occur; loop ids whose first child is a loop (DETAIL,
  TABLE...); an id that no map has; a segment id; a lower-case id.

API scripts (gen_script): generated WHILE RUNNING the implementation, so that every op can be built from the
  live state of the registers: valid paths to loops / segments / elements / sub-elements below the node in a
  register, qualified paths (REF[1W]02) with right and wrong qualifiers, `../` paths (also from the children of a
  copy), paths through deleted nodes, malformed paths; segments for add_segment / add_loop / delete_segment built
  from the map node of the register (any child, so in and out of map order), segments that do not belong, texts
  with and without terminator, Segment objects with other delimiters, None and an int; compound patterns
  (hold a handle then delete it, copy then edit copy and original, set then get, count/exists/first/select on one
  path).  The ops only are kept: the check re-runs them from scratch on both sides.

All randomness comes from the random.Random handed in."""
import ast
import glob
import os

import core
import ctx_impl
import docgen
import mapsrc
import walk_gen
from ctx_impl import op

_corpus = []


def corpus_docs():
    """[(name, text)]"""
    if _corpus:
        return _corpus
    from pyx12.test.x12testdata import datafiles
    for k, v in sorted(datafiles.items()):
        if isinstance(v, dict) and 'source' in v:
            _corpus.append(('datafiles:' + k, v['source']))
    base = os.path.join(core.REPO, 'pyx12')
    for pat in ('examples/*.txt', 'tests/*.txt'):
        for p in sorted(glob.glob(os.path.join(base, pat))):
            with open(p, encoding='latin-1', newline='') as f:
                _corpus.append((os.path.relpath(p, base), f.read()))
    seen = set(t for _, t in _corpus)
    for p in sorted(glob.glob(os.path.join(base, 'test', 'test_*.py'))):
        try:
            with open(p, encoding='latin-1') as f:
                tree = ast.parse(f.read())
        except SyntaxError:
            continue
        k = 0
        for node in ast.walk(tree):
            if isinstance(node, ast.Constant) and isinstance(node.value, str):
                s = node.value.lstrip()
                if s.startswith('ISA') and len(s) > 120 and s not in seen:
                    seen.add(s)
                    _corpus.append(('%s#%d' % (os.path.basename(p), k), s))
                    k += 1
    return _corpus


def delims_of(text):
    if len(text) >= 106 and text.startswith('ISA'):
        return (text[105], text[3], text[104])
    return ('~', '*', ':')


def split_segments(text):
    d = delims_of(text)
    return [s.lstrip('\r\n') for s in text.split(d[0]) if s.strip('\r\n') != ''], d


# ---------------------------------------------------------------- documents

def gen_document(rng, names):
    """-> (kind, what, text)"""
    r = rng.random()
    if r < 0.22:
        ck, text = rng.choice(corpus_docs())
        if rng.random() < 0.45 and text.startswith('ISA') and len(text) > 106:
            segs, d = split_segments(text)
            m = mapsrc.load(rng.choice(names))
            if rng.random() < 0.7:
                segs, mk = walk_gen.mutate_body(rng, segs, d, m)
            else:
                segs, mk = walk_gen.mutate_envelope(rng, segs, d)
            return ('corpus-mut', 'corpus=%s mut=%s' % (ck, mk), walk_gen.encode_document(rng, segs, d))
        return ('corpus', 'corpus=%s' % ck, text)
    if r < 0.28:
        segs, d = walk_gen.mixed_document(rng, names)
        return ('mixed', 'mixed', walk_gen.encode_document(rng, segs, d))
    name = rng.choice(names)
    m = mapsrc.load(name)
    n_st = 2 if rng.random() < 0.15 else 1
    n_gs = 2 if rng.random() < 0.07 else 1
    p_rep = rng.choice([0.15, 0.15, 0.5, 0.8])
    segs, d = walk_gen.map_document(rng, name, n_st=n_st, n_gs=n_gs, p_seg=rng.choice([0.1, 0.3, 0.5]),
                                    p_loop=rng.choice([0.15, 0.3, 0.5]), p_rep=p_rep, max_segs=rng.choice([25, 50, 90]))
    what = 'map=%s p_rep=%s' % (name, p_rep)
    if r < 0.62:
        return ('map', what, walk_gen.encode_document(rng, segs, d))
    if r < 0.86:
        kinds = []
        for _ in range(rng.choice([1, 1, 2, 3])):
            segs, mk = walk_gen.mutate_body(rng, segs, d, m)
            kinds.append(mk)
        return ('map-bodymut', what + ' mut=' + '+'.join(kinds), walk_gen.encode_document(rng, segs, d))
    segs, mk = walk_gen.mutate_envelope(rng, segs, d)
    return ('map-envmut', what + ' mut=' + mk, walk_gen.encode_document(rng, segs, d))


# ---------------------------------------------------------------- loop ids

_probe_cache = {}


def probe(text, charset='B', exclude='', map_path=None):
    """run the implementation once with loop_id=None: (loop ids in order of first occurrence, maps loaded,
    [map root objects seen])"""
    key = (text, charset, exclude, map_path)
    if key in _probe_cache:
        return _probe_cache[key]
    loaded, seen, roots = [], [], []
    with ctx_impl.patched(charset, exclude, loaded, map_path):
        try:
            src = ctx_impl.make_reader(text, charset, exclude, map_path)
            for node in src.iter_segments(None):
                for lid in node.x12_map_node.x12path.loop_list:
                    if lid not in seen:
                        seen.append(lid)
                root = ctx_impl.map_root(node.x12_map_node)
                if all(root is not x for x in roots):
                    roots.append(root)
        except Exception:  # noqa
            pass
    if len(_probe_cache) > 400:
        _probe_cache.clear()
    _probe_cache[key] = (seen, loaded, roots)
    return _probe_cache[key]


_loopinfo = {}


def loop_info(root):
    """(all loop ids, ids of loops whose first child is a loop, segment ids) of a loaded map"""
    if id(root) not in _loopinfo:
        allids, nested, segids = [], [], []
        for n in mapsrc.iter_nodes(root):
            if n.is_map_root():
                continue
            if n.is_loop():
                if n.id:
                    allids.append(n.id)
                k = walk_gen.kids(n)
                if k and k[0].is_loop() and n.id:
                    nested.append(n.id)
            elif n.is_segment() and n.id:
                segids.append(n.id)
        _loopinfo[id(root)] = (root, sorted(set(allids)), sorted(set(nested)), sorted(set(segids)))
    return _loopinfo[id(root)][1:]


def pick_loop_id(rng, text, map_path=None):
    """-> (kind, loop_id) ; '' = None"""
    seen, _loaded, roots = probe(text, map_path=map_path)
    r = rng.random()
    if r < 0.08 or not roots:
        return ('none', '') if rng.random() < 0.6 or not roots else ('absent', rng.choice(['XXXX', '9999', 'ZZ_LOOP']))
    allids, nested, segids = loop_info(rng.choice(roots))
    body = [x for x in seen if x not in ('ISA_LOOP', 'GS_LOOP', 'ST_LOOP')]
    if r < 0.50 and body:
        return ('occurs', rng.choice(body))
    if r < 0.62:
        return ('envelope', rng.choice(['ISA_LOOP', 'GS_LOOP', 'ST_LOOP']))
    if r < 0.70 and nested:
        return ('first-child-is-loop', rng.choice(nested))
    if r < 0.90 and allids:
        lid = rng.choice(allids)
        return ('occurs' if lid in seen else 'of-map-absent', lid)
    if r < 0.94:
        return ('absent', rng.choice(['XXXX', '9999', 'ZZ_LOOP', '/']))
    if r < 0.97 and segids:
        return ('segment-id', rng.choice(segids))
    return ('lowercase', rng.choice(seen).lower() if seen else 'header')


# ---------------------------------------------------------------- API scripts

def live_children(n):
    return [c for c in ctx_impl.raw_children(n) if c.type is not None]


def enumerate_paths(n, limit=400):
    """[(list of loop ids, seg node or None, target node)] below loop node n (live nodes only)"""
    out = []

    def walk(x, loops, depth):
        if len(out) > limit or depth > 12:
            return
        for c in live_children(x):
            try:
                cid = c.id
            except Exception:  # noqa
                continue
            if cid is None:
                cid = 'None'
            if c.type == 'seg':
                out.append((loops, c, c))
            else:
                out.append((loops + [cid], None, c))
                walk(c, loops + [cid], depth + 1)
    walk(n, [], 0)
    return out


def refdes_for(rng, segnode, with_id=True, qual=None):
    """an element designator for a live segment node: SEG02, SEG[Q]02, 02, 02-1 ..."""
    sd = segnode.seg_data
    sid = sd.get_seg_id() or 'XX'
    n = len(sd.elements)
    r = rng.random()
    if r < 0.08:
        idx = rng.choice([0, n + 1, n + 3, 99])
    else:
        idx = rng.randint(1, max(1, n))
    s = ''
    if with_id:
        s += sid
        if qual is None and rng.random() < 0.3:
            v = sd.get_value('01') or 'ZZ'
            qual = v if rng.random() < 0.75 else rng.choice(['ZZ', 'XX1', '0', v + 'Q'])
        if qual:
            s += '[%s]' % qual
    r = rng.random()
    if r < 0.06:
        return s                       # no element index
    s += '%02d' % idx
    if 1 <= idx <= n:
        ne = len(sd.elements[idx - 1].elements)
        if ne > 1 and rng.random() < 0.7:
            s += '-%d' % rng.choice(list(range(1, ne + 1)) + [ne + 1, 0])
        elif rng.random() < 0.08:
            s += '-%d' % rng.choice([1, 2])
    return s


BAD_PATHS = ['', '/', '..', '../', '../../', 'XX', 'X', '2300/', '2000A/2000B', 'NM1', 'REF[', 'REF[]02', '[1W]02', 'REF[1W]',
             '2400/02', '02', '02-1', '99', 'ZZZ01', 'REF02-1-2', 'ref02', 'REF 02', '/2300/CLM01', 'ST_LOOP/ST01', 'A//B',
             '2300/../2300/CLM01', 'HEADER/../DETAIL', '-1', 'CLM100', '00', 'REF00']


def mutate_path(rng, p):
    r = rng.random()
    if r < 0.25 and p:
        i = rng.randrange(len(p))
        return p[:i] + p[i + 1:]
    if r < 0.45:
        return p + rng.choice(['/', '/XX', '-1', '[ZZ]', '01', '/..'])
    if r < 0.6:
        return '/' + p
    if r < 0.75:
        return '../' + p
    if r < 0.85:
        return p.lower()
    return rng.choice(BAD_PATHS)


def node_kind(x):
    import pyx12.x12context
    if isinstance(x, pyx12.x12context.X12LoopDataNode):
        return 'L'
    if isinstance(x, pyx12.x12context.X12SegmentDataNode):
        return 'S'
    return None


def pick_path(rng, n, want=None):
    """a path string for an op on node n (a live data node object); want: 'loop' | 'seg' | 'ele' | None"""
    if node_kind(n) is None:
        return rng.choice(['REF02', 'NM1', '2300', 'CLM01', '../REF02', ''])
    ups = 0
    base = n
    if rng.random() < 0.18:
        # go up through parents that are loop objects
        while ups < 3 and node_kind(getattr(base, 'parent', None)) == 'L' and rng.random() < 0.7:
            base = base.parent
            ups += 1
    prefix = '../' * ups
    if rng.random() < 0.07:
        prefix += '../' * rng.choice([1, 1, 2, 5])
    if rng.random() < 0.06:
        return prefix + rng.choice(BAD_PATHS)
    if node_kind(base) == 'S':
        if base.type is None or base.seg_data is None:
            return prefix + rng.choice(['REF02', '02', 'NM103', ''])
        p = prefix + refdes_for(rng, base, with_id=rng.random() < 0.6)
        return mutate_path(rng, p) if rng.random() < 0.08 else p
    paths = enumerate_paths(base) if base.type is not None else []
    if not paths:
        return prefix + rng.choice(['REF02', 'NM1', '2300', 'CLM01', '2000/INS01', ''])
    if want == 'loop':
        cand = [x for x in paths if x[1] is None] or paths
    elif want in ('seg', 'ele'):
        cand = [x for x in paths if x[1] is not None] or paths
    else:
        cand = paths
    loops, sg, _t = rng.choice(cand)
    if sg is None:
        p = '/'.join(loops)
        if rng.random() < 0.1:
            p += '/'
        if rng.random() < 0.1:
            p += '/' + rng.choice(['NM1', 'REF', 'XX', 'NM103', 'REF[ZZ]02'])
    else:
        if want == 'seg' or (want is None and rng.random() < 0.35):
            sid = sg.seg_data.get_seg_id() or 'XX'
            q = ''
            if rng.random() < 0.3:
                v = sg.seg_data.get_value('01') or 'ZZ'
                q = '[%s]' % (v if rng.random() < 0.8 else 'ZZ')
            last = sid + q
        else:
            last = refdes_for(rng, sg)
        p = '/'.join(loops + [last])
    p = prefix + p
    if rng.random() < 0.07:
        p = mutate_path(rng, p)
    return p


VALUES = ['', 'A', 'NEW1', '12.5', 'VAL UE', '20200101', 'x', '0', 'abc def', 'ZZ', '1', 'Y', 'N', '123456789012345678901234567890']


def pick_value(rng, d):
    r = rng.random()
    if r < 0.8:
        return rng.choice(VALUES)
    if r < 0.9:
        return 'a' + d[2] + 'b' + (d[2] + 'c' if rng.random() < 0.5 else '')
    if r < 0.95:
        return 'x' + d[1] + 'y'
    return rng.choice([d[0], 'q' + d[0], ' ', '\t'])


def first_seg_of(loop_node):
    n = loop_node
    for _ in range(10):
        k = walk_gen.kids(n)
        if not k:
            return None
        if k[0].is_segment():
            return k[0]
        n = k[0]
    return None


def pick_segment(rng, n, d, want):
    """(kind, text) for add_segment ('seg'), add_loop ('loop') or delete_segment ('del') on node n"""
    r = rng.random()
    if r < 0.03:
        return rng.choice(['N', 'I']), ''
    kind = 'S'
    dd = d
    if r < 0.2:
        dd = rng.choice([d, ('~', '*', ':'), ('!', '+', '.'), ('\n', '|', '^')])
        kind = 'O' + dd[0] + dd[1] + dd[2]
    mn = getattr(n, 'x12_map_node', None)
    text = None
    r = rng.random()
    existing = [c for c in live_children(n) if c.type == 'seg'] if node_kind(n) == 'L' else []
    if want == 'del' and existing and r < 0.7:
        c = rng.choice(existing)
        try:
            text = c.seg_data.format(dd[0], dd[1], dd[2])[:-1]
        except Exception:  # noqa
            text = None
        if text is not None and rng.random() < 0.15:
            text += dd[1] + 'X'
    if text is None and mn is not None and hasattr(mn, 'pos_map') and r < 0.88:
        ks = walk_gen.kids(mn)
        if want == 'loop':
            cand = [first_seg_of(k) for k in ks if k.is_loop()]
            if rng.random() < 0.12:
                cand = [k for k in ks if k.is_segment()]          # a segment of the loop itself: not a loop start
        else:
            cand = [k for k in ks if k.is_segment()]
            if rng.random() < 0.1:
                cand = [first_seg_of(k) for k in ks if k.is_loop()]
        cand = [c for c in cand if c is not None]
        if cand:
            try:
                text = walk_gen.make_segment(rng, rng.choice(cand), dd, p_opt=rng.choice([0.2, 0.6]))
            except Exception:  # noqa
                text = None
    if text is None:
        text = rng.choice(['ZZZ*00', 'REF*ZZ*1', 'NM1*IL*1*DOE', 'LX*9', 'HL*1**20*1', 'DTP*007*D8*20200101', 'X', '', 'ST*837*0001',
                           'CLM*A1*100***11:B:1', 'N3*STREET']).replace('*', dd[1]).replace(':', dd[2])
    if rng.random() < 0.3:
        text += dd[0]
    return kind, text


SIMPLE = [('get', 20), ('set', 9), ('exists', 6), ('count', 6), ('select', 8), ('first', 9), ('gfms', 3), ('addseg', 8),
          ('addloop', 6), ('addnode', 4), ('delseg', 5), ('delnode', 5), ('delete', 2), ('copy', 4), ('iter', 2), ('iterloop', 2),
          ('segcount', 1), ('curline', 1), ('id', 1), ('curpath', 1), ('errct', 1), ('parent', 2), ('child', 2),
          ('hold_delete', 3), ('copy_edit', 3), ('set_get', 4), ('agree', 3), ('pad_set', 3)]


def weighted(rng, table):
    tot = sum(w for _, w in table)
    x = rng.random() * tot
    for k, w in table:
        x -= w
        if x < 0:
            return k
    return table[-1][0]


def gen_script(rng, text, loop_id, index, length=None, charset='B', exclude='', map_path=None):
    """-> list of op strings (may be empty when the node cannot be reached)"""
    d = delims_of(text)
    ops = []
    loaded = []
    with ctx_impl.patched(charset, exclude, loaded, map_path):
        node = None
        try:
            src = ctx_impl.make_reader(text, charset, exclude, map_path)
            k = 0
            for n in src.iter_segments(loop_id if loop_id else None):
                if k == index:
                    node = n
                    break
                k += 1
        except Exception:  # noqa
            node = None
        if node is None:
            return [op('get', 0, 'REF02'), op('exists', 0, 'NM1')]
        regs = [node] + [None] * (ctx_impl.NREGS - 1)

        def emit(o):
            ops.append(o)
            return ctx_impl.api_op(regs, o)

        def pick_reg(prefer=None):
            idx = [i for i, r in enumerate(regs) if node_kind(r) is not None]
            if prefer:
                pref = [i for i in idx if node_kind(regs[i]) == prefer and regs[i].type is not None]
                if pref and rng.random() < 0.85:
                    return rng.choice(pref)
            if rng.random() < 0.04:
                return rng.randrange(ctx_impl.NREGS)
            return rng.choice(idx) if idx else 0

        def free_reg():
            empty = [i for i in range(1, ctx_impl.NREGS) if regs[i] is None]
            if empty and rng.random() < 0.8:
                return empty[0]
            return rng.randint(1, ctx_impl.NREGS - 1)

        n_ops = length or rng.choice([4, 8, 12, 18, 25])
        while len(ops) < n_ops:
            kind = weighted(rng, SIMPLE)
            if kind == 'get':
                r = pick_reg()
                emit(op('get', r, pick_path(rng, regs[r], 'ele') if node_kind(regs[r]) else 'REF02'))
            elif kind == 'set':
                r = pick_reg()
                emit(op('set', r, pick_path(rng, regs[r], 'ele') if node_kind(regs[r]) else 'REF02', pick_value(rng, d)))
            elif kind in ('exists', 'count'):
                r = pick_reg('L')
                emit(op(kind, r, pick_path(rng, regs[r], rng.choice(['loop', 'seg', None])) if node_kind(regs[r]) else 'NM1'))
            elif kind == 'select':
                r = pick_reg('L')
                p = pick_path(rng, regs[r], rng.choice(['loop', 'seg'])) if node_kind(regs[r]) else 'NM1'
                emit(op('select', r, p, free_reg(), rng.choice(['-', 0, 0, 1, 2])))
            elif kind == 'first':
                r = pick_reg('L')
                p = pick_path(rng, regs[r], rng.choice(['loop', 'loop', 'seg'])) if node_kind(regs[r]) else 'NM1'
                emit(op('first', r, p, free_reg()))
            elif kind == 'gfms':
                r = pick_reg()
                emit(op('gfms', r, pick_path(rng, regs[r], 'ele') if node_kind(regs[r]) else 'REF02'))
            elif kind in ('addseg', 'addloop'):
                r = pick_reg('L')
                sk, st = pick_segment(rng, regs[r], d, 'seg' if kind == 'addseg' else 'loop')
                emit(op(kind, r, sk, st, free_reg()))
            elif kind == 'delseg':
                r = pick_reg('L')
                sk, st = pick_segment(rng, regs[r], d, 'del')
                emit(op('delseg', r, sk, st))
            elif kind == 'addnode':
                r = pick_reg('L')
                # mostly: a node taken from below r (select then add it again), or a copy, or any register
                if node_kind(regs[r]) == 'L' and rng.random() < 0.7:
                    t = free_reg()
                    emit(op('first', r, pick_path(rng, regs[r], rng.choice(['loop', 'seg'])), t))
                    if rng.random() < 0.4 and node_kind(regs[t]):
                        emit(op('copy', t, t))
                    emit(op('addnode', r, t))
                else:
                    emit(op('addnode', r, pick_reg()))
            elif kind == 'delnode':
                r = pick_reg('L')
                emit(op('delnode', r, pick_path(rng, regs[r], rng.choice(['loop', 'seg'])) if node_kind(regs[r]) else 'NM1'))
            elif kind == 'delete':
                r = pick_reg()
                if r != 0 or rng.random() < 0.2:
                    emit(op('delete', r))
            elif kind == 'copy':
                emit(op('copy', pick_reg(), free_reg()))
            elif kind in ('iter', 'iterloop', 'segcount', 'curline', 'id', 'curpath', 'errct'):
                emit(op(kind, pick_reg()))
            elif kind == 'parent':
                emit(op('parent', pick_reg(), free_reg()))
            elif kind == 'child':
                r = pick_reg('L')
                nch = len(ctx_impl.raw_children(regs[r])) if node_kind(regs[r]) else 0
                emit(op('child', r, rng.randint(0, max(0, nch)), free_reg()))
            elif kind == 'hold_delete':
                r = pick_reg('L')
                if node_kind(regs[r]) != 'L':
                    continue
                t = free_reg()
                p = pick_path(rng, regs[r], rng.choice(['loop', 'loop', 'seg']))
                emit(op('first', r, p, t))
                if rng.random() < 0.4 and node_kind(regs[t]) == 'L':
                    t2 = free_reg()
                    emit(op('first', t, pick_path(rng, regs[t], None), t2))
                else:
                    t2 = t
                emit(op('delnode', r, p) if rng.random() < 0.7 else op('delete', t))
                for _ in range(rng.choice([1, 2, 3])):
                    q = rng.choice([t, t2])
                    pth = pick_path(rng, regs[q], None) if node_kind(regs[q]) else 'REF02'
                    what = rng.choice(['get', 'exists', 'count', 'iter', 'id', 'copy', 'addseg', 'first', 'iterloop'])
                    if what in ('get', 'exists', 'count'):
                        emit(op(what, q, pth))
                    elif what in ('iter', 'id', 'iterloop'):
                        emit(op(what, q))
                    elif what == 'copy':
                        emit(op('copy', q, free_reg()))
                    elif what == 'first':
                        emit(op('first', q, pth, free_reg()))
                    else:
                        emit(op('addseg', q, 'S', 'REF' + d[1] + 'ZZ' + d[1] + '1', free_reg()))
                emit(op('count', r, p))
                if rng.random() < 0.5:
                    emit(op('copy', r, free_reg()))          # a copy of a tree that still holds the deleted entry
            elif kind == 'copy_edit':
                r = pick_reg('L')
                if node_kind(regs[r]) is None:
                    continue
                c = free_reg()
                emit(op('copy', r, c))
                if node_kind(regs[c]) is None:
                    continue
                p = pick_path(rng, regs[c], 'ele')
                v = pick_value(rng, d)
                emit(op('set', c, p, v))
                emit(op('get', c, p))
                emit(op('get', r, p))
                if node_kind(regs[c]) == 'L' and rng.random() < 0.7:
                    t = free_reg()
                    emit(op('first', c, pick_path(rng, regs[c], rng.choice(['loop', 'seg'])), t))
                    if node_kind(regs[t]):
                        p2 = '../' + pick_path(rng, regs[c], 'ele')
                        emit(op('set', t, p2, pick_value(rng, d)))
                        emit(op('get', t, p2))
                        emit(op('parent', t, free_reg()))
                p3 = pick_path(rng, regs[r], 'ele')
                emit(op('set', r, p3, pick_value(rng, d)))
                emit(op('get', c, p3))
            elif kind == 'set_get':
                r = pick_reg()
                if node_kind(regs[r]) is None:
                    continue
                p = pick_path(rng, regs[r], 'ele')
                emit(op('get', r, p))
                emit(op('set', r, p, pick_value(rng, d)))
                emit(op('get', r, p))
            elif kind == 'pad_set':
                # extend a segment by several positions in one step, then write into one of the blank positions created on the way:
                # the blank positions must stay independent of each other
                r = pick_reg('S')
                if node_kind(regs[r]) == 'L' and regs[r].type is not None:
                    t = free_reg()
                    emit(op('first', r, pick_path(rng, regs[r], 'seg'), t))
                    r = t
                if node_kind(regs[r]) != 'S' or regs[r].seg_data is None or regs[r].type is None:
                    continue
                sd = regs[r].seg_data
                sid = sd.get_seg_id() or 'XX'
                n = len(sd.elements)
                far = n + rng.choice([3, 3, 4, 6])
                if far > 99:
                    continue
                emit(op('set', r, '%s%02d' % (sid, far), pick_value(rng, d)))
                slot = rng.randint(n + 1, far - 1)
                emit(op('set', r, '%s%02d-%d' % (sid, slot, rng.choice([1, 2, 3])), pick_value(rng, d)))
                for k in range(n + 1, far + 1):
                    emit(op('get', r, '%s%02d' % (sid, k)))
                emit(op('parent', r, free_reg()))
            elif kind == 'agree':
                r = pick_reg('L')
                if node_kind(regs[r]) is None:
                    continue
                p = pick_path(rng, regs[r], rng.choice(['loop', 'seg']))
                emit(op('exists', r, p))
                emit(op('count', r, p))
                emit(op('first', r, p, free_reg()))
                emit(op('select', r, p, free_reg(), rng.choice(['-', 0, 1])))
    return ops


# ---------------------------------------------------------------- fixed scripts that run first

def crafted_cases():
    """[(what, text, loop_id, index, ops)]: the corners found by reading the code, on documents of the corpus"""
    d = dict(corpus_docs())
    p837 = d['datafiles:simple_837p']           # 2300 trees at yields 20 and 21
    e834 = d['examples/example834_5010.txt']    # a 2000 tree at yield 7; sub-element separator is a backslash
    out = []

    def case(what, text, lid, index, *ops):
        out.append((what, text, lid, index, list(ops)))

    case('library tests: get/set/select on 2300', p837, '2300', 20,
         op('get', 0, 'CLM02'), op('get', 0, 'CLM99'), op('get', 0, 'CLM'), op('first', 0, '2400', 1), op('get', 1, '../CLM01'),
         op('get', 1, '../2310B/NM109'), op('get', 1, '../2310E/NM109'), op('select', 0, 'CLM', 2, 0), op('get', 2, '02'),
         op('get', 2, '05-3'), op('get', 0, '2400/SV101'), op('get', 0, '2400/SV101-2'), op('get', 0, '2400/REF[6R]02'),
         op('get', 0, '2400/2430/SVD02'), op('get', 0, '2400/AMT[AAE]02'), op('get', 1, 'AMT[AAE]02'), op('get', 1, '2430/AMT[AAE]02'),
         op('get', 0, '2400/SV199'), op('get', 0, '2400'), op('get', 0, '2400/REF[G1]02'), op('get', 0, '2400/REF[XX]02'),
         op('set', 0, 'CLM02', '50'), op('get', 0, 'CLM02'), op('set', 1, 'AMT[AAE]02', '25'), op('get', 1, 'AMT[AAE]02'),
         op('select', 0, '2400', 3, 1), op('select', 0, '2400/SV1', 4, 1), op('select', 1, '../CLM', 5, 0), op('count', 0, '2400/2430'),
         op('segcount', 0), op('curline', 0), op('segcount', 3), op('curline', 4), op('iterloop', 3))
    case('library tests: add / delete on 2300', p837, '2300', 20,
         op('addseg', 0, 'S', 'HCP*00*7.11~', 1), op('addseg', 0, 'S', 'REF*F5*6.11', 2), op('addseg', 0, 'S', 'ZZZ*00~', 3),
         op('addseg', 0, 'O~*:', 'HCP*00*7.11~', 3), op('addloop', 0, 'S', 'NM1*82*2*Provider 1*****ZZ*9898798~', 3),
         op('addloop', 0, 'S', 'LX*5~', 4), op('count', 0, '2400'), op('count', 0, '2310B'), op('select', 0, '2400', 5, 2),
         op('get', 5, 'LX01'), op('delseg', 0, 'S', 'CN1*05~'), op('get', 0, 'CN101'), op('delseg', 0, 'S', 'CN1*05~'),
         op('delseg', 0, 'S', 'CLM*3215338*21***12::1*Y*A*Y*A*B'), op('get', 0, '2400/LX01'), op('delnode', 0, '2400'),
         op('get', 0, '2400/LX01'), op('delnode', 0, '2500'), op('first', 0, 'HI', 6), op('delete', 6), op('exists', 0, 'HI'),
         op('copy', 0, 7), op('iter', 0))
    case('a segment node: ../ paths, first() through the parent, missing methods', p837, '2300', 20,
         op('first', 0, 'CN1', 1), op('exists', 1, '../CLM'), op('first', 1, '../CLM', 2), op('count', 1, '../2400'), op('select', 1, '../CLM', 2, 0),
         op('get', 1, 'CN101'), op('get', 1, '01'), op('get', 1, '../CLM01'), op('get', 1, 'CLM01'), op('get', 1, '2400/LX01'),
         op('set', 1, '01', '09'), op('set', 1, 'CN102-2', 'x'), op('get', 1, 'CN102'), op('set', 1, 'ZZ01', 'x'), op('gfms', 1, 'CN1'),
         op('gfms', 1, 'CN1[05]01'), op('gfms', 1, 'CN1[09]01'), op('addseg', 1, 'S', 'CN1*05', 3), op('delnode', 1, 'CN1'), op('errct', 1),
         op('errct', 0), op('child', 1, 0, 3), op('parent', 1, 3), op('id', 3), op('iter', 1), op('iterloop', 1), op('copy', 1, 4),
         op('parent', 4, 5), op('set', 4, '01', 'AA'), op('get', 1, '01'), op('delete', 1), op('get', 1, '01'), op('get', 1, 'CN101'),
         op('iter', 1), op('iterloop', 1), op('copy', 1, 6), op('exists', 1, '../CLM'), op('count', 0, 'CN1'))
    case('copy: children of the copy keep the parent of the original', p837, '2300', 20,
         op('copy', 0, 1), op('first', 1, '2400', 2), op('parent', 2, 3), op('get', 2, '../CLM01'), op('set', 2, '../CLM01', 'CHANGED'),
         op('get', 0, 'CLM01'), op('get', 1, 'CLM01'), op('set', 1, 'CLM02', '77'), op('get', 0, 'CLM02'), op('get', 1, 'CLM02'),
         op('first', 2, '2430', 4), op('get', 4, '../../CLM01'), op('addseg', 2, 'S', 'NTE*ADD*x', 5), op('count', 1, '2400/NTE'),
         op('count', 0, '2400/NTE'), op('delnode', 1, '2400'), op('count', 1, '2400'), op('count', 0, '2400'), op('get', 2, 'LX01'),
         op('addnode', 1, 2), op('addnode', 0, 2))
    case('deleted entries: resurrected by copy, None.copy(), cleanup on the next add', p837, '2300', 20,
         op('first', 0, '2320', 1), op('first', 0, '2400', 2), op('delnode', 0, '2320'), op('child', 0, 4, 3), op('id', 1), op('curpath', 1),
         op('exists', 1, 'SBR'), op('get', 1, 'SBR01'), op('exists', 1, '../CLM'), op('copy', 0, 4), op('count', 4, '2400'), op('exists', 4, '2320'),
         op('iter', 4), op('iterloop', 4), op('addseg', 4, 'S', 'HCP*00*7.11', 5), op('delnode', 0, 'HI'), op('copy', 0, 6),
         op('addseg', 0, 'S', 'HCP*00*7.11', 5), op('copy', 0, 6), op('iter', 6), op('addnode', 0, 1), op('addnode', 1, 2), op('copy', 1, 7))
    case('paths: A/../B, loop path naming a segment, trailing slash, absolute, empty', p837, '2300', 20,
         op('get', 0, '2400/../CLM01'), op('get', 0, '2400/../2310B/NM103'), op('exists', 0, '2400/../CLM'), op('select', 0, 'CLM/', 1, 0),
         op('count', 0, 'HI/'), op('count', 0, 'HI'), op('first', 0, '2400/LX/', 2), op('get', 0, '2400/'), op('get', 0, ''), op('exists', 0, ''),
         op('count', 0, '/2400'), op('get', 0, '/2400/LX01'), op('get', 0, '/CLM01'), op('set', 0, '/CLM01', 'ABS'), op('get', 0, 'CLM01'),
         op('get', 0, '../X'), op('get', 0, '../../X'), op('exists', 0, '../2300'), op('get', 0, 'CLM[ZZ]01'), op('get', 0, 'CLM[3215338]01'),
         op('get', 0, '[ZZ]01'), op('get', 0, '2400/01'), op('get', 0, '01'), op('get', 0, 'CLM00'), op('set', 0, 'CLM00', 'NEG'), op('gfms', 0, 'CLM'),
         op('get', 0, 'CLM05-0'), op('get', 0, 'CLM05-9'), op('set', 0, 'CLM05-5', 'q'), op('get', 0, 'CLM05'), op('set', 0, 'CLM', 'noidx'),
         op('get', 0, 'clm01'), op('get', 0, 'CLM1'), op('get', 0, 'CLM001'), op('get', 0, '2400//LX01'), op('count', 0, '2400/2430/'),
         op('select', 0, '2400/2430/SVD', 3, 1), op('get', 3, '../../../CLM01'), op('get', 3, '../../../../X'))
    case('add_loop under a loop whose matching child starts with a loop', p837, 'ST_LOOP', 2,
         op('addloop', 0, 'S', 'HL*9**20*1', 1), op('count', 0, 'DETAIL'), op('child', 0, 3, 2), op('id', 2), op('iter', 2),
         op('first', 0, 'DETAIL', 3), op('addloop', 3, 'S', 'HL*9**20*1', 4), op('count', 3, '2000A'), op('delnode', 3, '2000A'),
         op('addloop', 3, 'S', 'HL*9**20*1', 5), op('select', 0, 'DETAIL/2000A', 6, 0), op('addseg', 0, 'S', 'SE*5*1179', 7),
         op('addseg', 0, 'S', 'ST*837*1179', 7), op('addseg', 0, 'S', 'BHT*0019*00*1*20041105*1526*RP', 7), op('iterloop', 3))
    case('insert position: out of map order, repeats, after the last not greater', p837, '2300', 20,
         op('addseg', 0, 'S', 'AMT*F5*1', 1), op('addseg', 0, 'S', 'DTP*431*D8*20040101', 1), op('addseg', 0, 'S', 'AMT*F5*2', 1),
         op('addseg', 0, 'S', 'CLM*X*1***11::1*Y*A*Y*A', 1), op('addloop', 0, 'S', 'NM1*DN*1*REF', 2), op('addloop', 0, 'S', 'LX*7', 3),
         op('addloop', 0, 'S', 'SBR*S*18*******MC', 4), op('addseg', 0, 'S', 'NTE*ADD*z', 5), op('delseg', 0, 'S', 'CLM*X*1***11::1*Y*A*Y*A'),
         op('delseg', 0, 'S', 'AMT*F5*1'), op('addnode', 0, 3), op('count', 0, '2400'), op('iter', 0))
    case('one node under two parents', p837, '2300', 20,
         op('select', 0, '2400', 1, 0), op('select', 0, '2400', 2, 1), op('first', 1, '2430', 3), op('addnode', 2, 3), op('count', 2, '2430'),
         op('parent', 3, 4), op('delnode', 2, '2430'), op('count', 1, '2430'), op('count', 2, '2430'), op('iter', 0), op('delete', 0),
         op('get', 1, '../CLM01'), op('get', 1, 'LX01'), op('exists', 0, '2400'), op('addseg', 0, 'S', 'NTE*ADD*z', 5), op('copy', 0, 5),
         op('id', 0), op('iter', 0), op('iterloop', 0), op('get', 0, '../X'), op('addnode', 0, 1), op('addnode', 1, 0))
    case('ISA node: separators remembered by the composites', e834, '', 0,
         op('get', 0, 'ISA16'), op('set', 0, 'ISA16', 'a*b'), op('get', 0, 'ISA16'), op('get', 0, '16'), op('set', 0, 'ISA05-2', 'x'),
         op('get', 0, 'ISA05'), op('set', 0, 'ISA03', 'u\\v'), op('get', 0, 'ISA03'), op('get', 0, 'ISA03-2'), op('set', 0, 'ISA00', 'q\\r'),
         op('get', 0, 'ISA16'), op('set', 0, 'ISA16-2', 'z'), op('get', 0, 'ISA16'), op('copy', 0, 1), op('get', 1, 'ISA16'), op('get', 1, 'ISA05'),
         op('set', 0, 'ISA20', 'far'), op('get', 0, 'ISA18'), op('get', 0, 'ISA20'), op('get', 0, '../ISA01'), op('parent', 0, 2), op('gfms', 0, 'ISA[00]01'),
         op('gfms', 0, 'ISA[ZZ]01'), op('errct', 0), op('iterloop', 0))
    case('a plain segment node whose parent is a list', e834, '2000', 3,
         op('parent', 0, 1), op('get', 0, 'BGN01'), op('get', 0, '../BGN01'), op('exists', 0, '../BGN'), op('get', 0, '../../X'), op('first', 0, '../BGN', 2),
         op('count', 0, 'BGN'), op('copy', 0, 3), op('parent', 3, 4), op('set', 0, 'BGN08', '2'), op('get', 3, 'BGN08'), op('iterloop', 0), op('errct', 0),
         op('addseg', 0, 'S', 'DTP*007*D8*20150301', 5), op('delete', 0), op('iter', 0))
    case('834: tree 2000, string segments need a segment child for the terminators', e834, '2000', 7,
         op('first', 0, '2300', 1), op('delnode', 1, 'HD'), op('delnode', 1, 'DTP'), op('delnode', 1, 'AMT'), op('delnode', 1, 'REF'),
         op('addseg', 1, 'S', 'DTP*348*D8*20150301', 2), op('first', 0, '2100A', 3), op('copy', 3, 4), op('delete', 3), op('addseg', 3, 'S', 'N3*X', 5),
         op('addseg', 4, 'S', 'N3*X', 5), op('addseg', 0, 'S', '', 5), op('addseg', 0, 'S', '~', 5), op('addseg', 0, 'S', 'REF', 5),
         op('addseg', 0, 'S', 'REF*ZZ*1~~', 5), op('addseg', 0, 'O!+.', 'REF+ZZ+1!', 5), op('get', 0, 'REF[ZZ]02'), op('addseg', 0, 'N', '', 5),
         op('addseg', 0, 'I', '', 5), op('addloop', 0, 'N', '', 5), op('delseg', 0, 'I', ''), op('addloop', 0, 'S', 'HD*030**VIS', 6), op('addloop', 0, 'S', 'INS*Y*18', 6),
         op('addloop', 0, 'S', 'LS*2700', 6), op('addloop', 6, 'S', 'LX*1', 7), op('count', 0, '2700_LS/2700'), op('iter', 0))
    return out
