"""Conformant documents derived from a map (property C02): every required loop / segment / element present, optional ones
by chance, repeat counts within limits, values satisfying type, length, code list and syntax notes, HL / LX numbers
sequential, consistent ISA/GS/ST envelope.  Built on walk_gen (same map objects), with the value rules tightened."""
import docgen
import mapsrc
import walk_gen


def value_for(rng, e, fmt=None):
    de = walk_gen.de_of(e)
    ty, mn, mx = de['data_type'], de['min_len'], de['max_len']
    codes = [c for c in e.valid_codes if c]
    rec = getattr(e, 'rec', None)
    if rec is not None:
        for cand in ['123456789', '12345', 'A1']:
            if mn <= len(cand) <= mx and rec.search(cand):
                return cand
    if codes:
        if e.data_ele == '1250':
            # the following 1251 value must fit one of the formats this element allows: prefer the date/time ones
            known = [c for c in codes if c in ('D8', 'RD8', 'DT', 'D6', 'TM')]
            if known:
                return rng.choice(known)
        return rng.choice(codes)
    if e.external_codes:
        ext = e.root.ext_codes.codes.get(e.external_codes)
        if ext and ext['codes']:
            good = [c for c in ext['codes'][:80] if c == c.strip() and mn <= len(c) <= mx]
            if good:
                return rng.choice(good)
    if e.data_ele == '1251':
        # must fit one of the formats the preceding 1250 element ALLOWS (whether or not that element is present)
        sib = [c for c in e.parent.children if getattr(c, 'data_ele', None) == '1250' and c.seq < e.seq]
        allowed = [c for c in (sib[-1].valid_codes if sib else []) if c]
        if fmt not in ('D8', 'DT', 'RD8', 'D6', 'TM') or (allowed and fmt not in allowed):
            known = [c for c in allowed if c in ('D8', 'RD8', 'DT', 'D6', 'TM')]
            fmt = known[0] if known else fmt
    if fmt in ('D8', 'DT'):
        return rng.choice(DATES8)
    if fmt == 'RD8':
        return rng.choice(['20040101-20040131', '20000229-20000301', '19991231-20000101'])
    if fmt == 'D6':
        return rng.choice(['040229', '991231', '000229'])
    if fmt == 'TM':
        return rng.choice([t for t in TIMES if mn <= len(t) <= max(mx, 4)] or ['1230'])
    n = max(mn, 1)
    if ty in ('AN', 'ID', 'B'):
        L = max(n, min(mx, rng.choice([n, n + 1, min(mx, 6)])))
        return ('X' + ''.join(rng.choice('0123456789ABC') for _ in range(L - 1)))[:L]
    if ty == 'DT':
        return rng.choice(DATES8) if mx >= 8 else rng.choice(['040229', '991231'])
    if ty == 'D8':
        return rng.choice(DATES8)
    if ty == 'D6':
        return rng.choice(['040229', '991231'])
    if ty == 'RD8':
        return rng.choice(['20040101-20040131', '20000229-20000301'])
    if ty == 'TM':
        # every legal shape of an X12 time that fits: HHMM, HHMMSS, HHMMSSD, HHMMSSDD
        return rng.choice([t for t in TIMES if mn <= len(t) <= mx] or ['1230']) if mx >= 4 else '12'
    if ty == 'R':
        digits = ''.join(rng.choice('123456789') for _ in range(n))
        if mx > n and rng.random() < 0.5:
            return digits + '.5'              # the point does not count; one more digit
        return digits
    if ty and ty[0] == 'N':
        return ''.join(rng.choice('123456789') for _ in range(n))
    return 'A' * n


def nonempty_segment(rng, node, d, over=None):
    """walk_gen.make_segment, but never a segment without any value (the reader flags it)"""
    for _ in range(8):
        s = walk_gen.make_segment(rng, node, d, over)
        if d[1] in s and s.split(d[1], 1)[1].replace(d[1], '').replace(d[2], '') != '':
            return s
    return walk_gen.make_segment(rng, node, d, over, p_opt=1.0)


DATES8 = ['20040229', '19991231', '20000229', '18000101', '20231130', '20040131', '99991231']
TIMES = ['1230', '0000', '2359', '123059', '000000', '235959', '1526305', '2359599', '12305999', '00000000']


class Body(walk_gen.Body):
    def seg(self, node, hl_parent):
        over = {}
        if node.id == 'HL':
            self.hl += 1
            over[1] = str(self.hl)
            over[2] = '' if hl_parent is None else str(hl_parent)
        elif node.id == 'LX':
            self.lx += 1
            over[1] = str(self.lx)
        elif node.id == 'CLM':
            self.lx = 0
        self.segs.append(nonempty_segment(self.rng, node, self.d, over))

    def loop(self, node, hl_parent, depth):
        rng = self.rng
        my_hl = hl_parent
        first = True
        for ch in walk_gen.kids(node):
            is_first, first = first, False
            if ch.usage == 'N':
                continue
            wrapper = ch.is_loop() and getattr(ch, 'type', None) == 'wrapper'
            # a loop instance begins with its first segment
            needed = ch.usage == 'R' or (wrapper and has_required(ch)) or (is_first and ch.is_segment() and node.is_loop())
            full = len(self.segs) > self.max_segs
            want = needed or (not full and rng.random() < (self.p_seg if ch.is_segment() else self.p_loop * (0.8 ** depth)))
            if not want:
                continue
            n = 1
            if not full and walk_gen.max_use(ch) > 1 and rng.random() < self.p_rep:
                n = min(walk_gen.max_use(ch), rng.choice([2, 2, 3]))
            if self.loop_twice and ch.is_loop() and not wrapper and not full:
                n = 2
            for _ in range(n):
                if ch.is_segment():
                    self.seg(ch, hl_parent)
                    if ch.id == 'HL':
                        my_hl = self.hl
                else:
                    self.loop(ch, my_hl, depth + 1)


def has_required(loop):
    return any(c.usage == 'R' for c in walk_gen.kids(loop))


def transaction(rng, m, d, scn, **kw):
    st_loop = walk_gen.find_loop(m, ['ISA_LOOP', 'GS_LOOP', 'ST_LOOP'])
    b = Body(rng, d, **kw)
    for ch in walk_gen.kids(st_loop):
        if ch.is_segment() and ch.id == 'ST':
            b.segs.append(walk_gen.make_segment(rng, ch, d, {2: scn}))
        elif ch.is_segment() and ch.id == 'SE':
            b.segs.append(d[1].join(['SE', str(len(b.segs) + 1), scn]))
        elif ch.usage != 'N':
            wrapper = ch.is_loop() and getattr(ch, 'type', None) == 'wrapper'
            if ch.usage == 'R' or (wrapper and has_required(ch)) or rng.random() < 0.5:
                if ch.is_loop():
                    b.loop(ch, None, 0)
                else:
                    b.seg(ch, None)
    return b.segs


def document(rng, name, d=('~', '*', ':'), n_isa=1, n_gs=1, n_st=1, **kw):
    """segments of a conformant interchange for map file `name` -> (segs, d, selector)"""
    m = mapsrc.load(name)
    icvn, fic, vriic, tspc = rng.choice(walk_gen.selectors()[name])
    real_value_for = walk_gen.value_for
    walk_gen.value_for = value_for
    try:
        out = []
        for _i in range(n_isa):
            icn = '%09d' % rng.randint(1, 999999999)
            out.append(docgen.isa(icn, d, icvn))
            for _g in range(n_gs):
                gcn = str(rng.randint(1, 99999))
                out.append(docgen.seg(d, 'GS', fic, 'SENDER', 'RECEIVER', '20040229', '1230', gcn, 'X', vriic))
                used = set()
                for _s in range(n_st):
                    scn = '%04d' % rng.randint(1, 9999)
                    while scn in used:
                        scn = '%04d' % rng.randint(1, 9999)
                    used.add(scn)
                    segs = transaction(rng, m, d, scn, **kw)
                    if tspc:
                        segs = [walk_gen.set_elem(s, d, 2, tspc) if s.startswith('BHT' + d[1]) else s for s in segs]
                    out.extend(segs)
                out.append(docgen.seg(d, 'GE', str(n_st), gcn))
            out.append(docgen.seg(d, 'IEA', str(n_gs), icn))
    finally:
        walk_gen.value_for = real_value_for
    return out, d, (icvn, fic, vriic, tspc)
