"""Implementation side of the report-generator correspondence: drive the REAL
pyx12.error_html.error_html + pyx12.error_handler.err_iter, pyx12.x12xml_simple.x12xml_simple and
pyx12.xmlx12_simple.convert and print exactly the canonical text coq/Model/UnitsOut.v prints.

html script commands (Python side, tuples); errh events are the tuples of errh_impl:
  ('R', delims, text, cur_line)          collect new error nodes with err_iter, then html.gen_seg
  ('Q', mode, delims, text, cur_line)    the same with the handler in front of the list (mode 'r') or
                                         cur_ele_node appended (mode 'e')
  ('L', id, name, type)                  html.loop(loop_node);  ('L', 'M'): loop_node is the map root (no .type)
  ('N',)                                 one next() of a fresh err_iter positioned on cur_ele_node
  ('F',)                                 html.footer()
xmlout call: (ref tuple, delims, text);  xmlin: XML text."""
import logging
import os
import tempfile
import time
import xml.etree.ElementTree as et

import core
import errh_impl
import mapser
from errh_impl import US, hx, oS, oZ

HTML_CMDS = 'RQLNF'


# ---------------------------------------------------------------- encoding for the model

def encode_cmd(cmd):
    k = cmd[0]
    if k == 'R':
        return 'R' + US.join([cmd[1], cmd[2], oZ(cmd[3])])
    if k == 'Q':
        return 'Q' + US.join([cmd[1], cmd[2], cmd[3], oZ(cmd[4])])
    if k == 'L':
        if len(cmd) == 2:
            return 'LM'
        return 'L' + US.join([oS(cmd[1]), oS(cmd[2]), oS(cmd[3])])
    if k in 'NF':
        return k
    return errh_impl.encode_event(cmd)


def html_request(tstr, term, cmds):
    return ('html', [tstr, US.join(term)] + [encode_cmd(c) for c in cmds])


def xmlout_request(mapname, dtd, calls):
    args = [mapname, dtd]
    for (ref, delims, text) in calls:
        args += ['.'.join(str(i) for i in ref), delims, text]
    return ('xmlout', args)


def ser_full(e):
    """like mapser.ser but every node keeps its own text (the model reads ele/subele text whatever the children)"""
    children = [c for c in e if isinstance(c.tag, str)]
    out = ['X', mapser.field(e.tag), '%d;' % len(e.attrib)]
    for k, v in e.attrib.items():
        out.append(mapser.field(k))
        out.append(mapser.field(v))
    out.append('N' if e.text is None else 'T' + mapser.field(e.text))
    out.append('%d;' % len(children))
    for c in children:
        out.append(ser_full(c))
    return ''.join(out)


# ---------------------------------------------------------------- html

class FakeSrc(object):
    def __init__(self, cur_line):
        self.cur_line = cur_line


class FakeMapRoot(object):
    """map_if as html.loop sees it: id and name, no attribute `type`"""
    def __init__(self):
        self.id = '837'
        self.name = 'map'


class FakeLoop(object):
    def __init__(self, id, name, type):
        self.id = id
        self.name = name
        self.type = type


def pos_in(lst, n):
    for i, c in enumerate(lst):
        if c is n:
            return str(i)
    return '?'


def show_ref(errh, n):
    if n is errh:
        return 'R'
    if n.id == 'ISA':
        return 'I' + pos_in(errh.children, n)
    if n.id == 'GS':
        return show_ref(errh, n.parent) + '.G' + pos_in(n.parent.children, n)
    if n.id == 'ST':
        return show_ref(errh, n.parent) + '.T' + pos_in(n.parent.children, n)
    if n.id == 'SEG':
        p = n.parent
        if p is None or not any(c is n for c in p.children):
            return 'D'
        return show_ref(errh, p) + '.S' + pos_in(p.children, n)
    if n.id == 'ELE':
        return 'E'
    return '?'


def show_refs(errh, ns):
    return ','.join(show_ref(errh, n) for n in ns)


def show_iter(errh, it):
    return show_ref(errh, it.cur_node) + ';' + show_refs(errh, it.visit_stack)


def show_writes(rec):
    return ','.join(hx(c) for c in rec.chunks)


def impl_html(tstr, term, cmds):
    """the same text as Model.UnitsOut.unit_html"""
    import pyx12.error_handler
    import pyx12.error_html
    from pyx12.errors import IterOutOfBounds
    logging.disable(logging.CRITICAL)
    errh = pyx12.error_handler.err_handler()
    rec = errh_impl.Rec()
    html = pyx12.error_html.error_html(errh, rec, tuple(term))
    old = time.strftime
    time.strftime = lambda fmt, *a: tstr
    try:
        html.header()
    finally:
        time.strftime = old
    it = pyx12.error_handler.err_iter(errh)
    out = ['H:' + show_writes(rec)]

    def render(front, back, delims, text, line):
        rec.chunks = []
        nodes = []
        steps = 0
        try:
            while True:
                try:
                    next(it)
                    nodes.append(it.get_cur_node())
                except IterOutOfBounds:
                    break
                steps += 1
                if steps > 100000:
                    return 'R:?loop'
        except Exception as e:  # noqa
            return 'R:|' + core.exn_name(e) + '||' + show_iter(errh, it)
        lst = front + nodes + back
        exn = ''
        try:
            html.gen_seg(errh_impl.mk_seg(delims, text), FakeSrc(line), lst)
        except Exception as e:  # noqa
            exn = core.exn_name(e)
        return 'R:' + show_writes(rec) + '|' + exn + '|' + show_refs(errh, lst) + '|' + show_iter(errh, it)

    for cmd in cmds:
        k = cmd[0]
        if k == 'R':
            out.append(render([], [], cmd[1], cmd[2], cmd[3]))
        elif k == 'Q':
            if cmd[1] == 'r':
                out.append(render([errh], [], cmd[2], cmd[3], cmd[4]))
            else:
                back = [errh.cur_ele_node] if errh.cur_ele_node is not None else []
                out.append(render([], back, cmd[2], cmd[3], cmd[4]))
        elif k == 'L':
            exn = ''
            try:
                html.loop(FakeMapRoot() if len(cmd) == 2 else FakeLoop(cmd[1], cmd[2], cmd[3]))
            except Exception as e:  # noqa
                exn = core.exn_name(e)
            out.append('L:' + ('N' if html.loop_info is None else 'S' + hx(html.loop_info)) + exn)
        elif k == 'N':
            if errh.cur_ele_node is None:
                out.append('N:none')
            else:
                it2 = pyx12.error_handler.err_iter(errh)
                it2.cur_node = errh.cur_ele_node
                try:
                    next(it2)
                    out.append('N:ok')
                except IterOutOfBounds:
                    out.append('N:out')
                except Exception as e:  # noqa
                    out.append('N:' + core.exn_name(e))
        elif k == 'F':
            rec.chunks = []
            exn = ''
            try:
                html.footer()
            except Exception as e:  # noqa
                exn = core.exn_name(e)
            out.append('F:' + show_writes(rec) + '|' + exn)
        elif k == 'C':
            try:
                out.append('e:' + str(errh.get_error_count()))
            except Exception as e:  # noqa
                out.append('e:' + core.exn_name(e))
        else:
            try:
                errh_impl.apply_event(errh, cmd)
                out.append('e:ok')
            except Exception as e:  # noqa
                out.append('e:' + core.exn_name(e))
    return '\n'.join(out)


# ---------------------------------------------------------------- xmlout

_maps = {}


def load_map(name, mapdir=None):
    key = (name, mapdir)
    if key not in _maps:
        import pyx12.map_if
        import pyx12.params
        param = pyx12.params.params()
        _maps[key] = pyx12.map_if.load_map_file(name, param, mapdir)
    return _maps[key]


def impl_xmlout(m, dtd, calls):
    """returns (canonical text as Model.UnitsOut.unit_xmlout, the XML text written)"""
    import pyx12.segment
    import pyx12.x12xml_simple
    rec = errh_impl.Rec()
    x = pyx12.x12xml_simple.x12xml_simple(rec, dtd)
    exs = []
    for k, (ref, delims, text) in enumerate(calls):
        node = mapser.node_by_ref(m, ref)
        sg = pyx12.segment.Segment(text, delims[0], delims[1], delims[2])
        try:
            x.seg(node, sg)
        except Exception as e:  # noqa
            exs.append('%d:%s' % (k, core.exn_name(e)))
    x.__del__()          # what `del xmldoc` does; a second call (garbage collection) finds the stack empty
    text = ''.join(rec.chunks)
    return hx(text) + '|' + ','.join(exs), text


def impl_xmlout_abort(m, dtd, calls):
    """what x12n_document leaves behind: the first exception ends the run, then the object is deleted.
    returns (XML text, name of the exception or '')"""
    import pyx12.segment
    import pyx12.x12xml_simple
    rec = errh_impl.Rec()
    x = pyx12.x12xml_simple.x12xml_simple(rec, dtd)
    exn = ''
    for (ref, delims, text) in calls:
        node = mapser.node_by_ref(m, ref)
        sg = pyx12.segment.Segment(text, delims[0], delims[1], delims[2])
        try:
            x.seg(node, sg)
        except Exception as e:  # noqa
            exn = core.exn_name(e)
            break
    x.__del__()
    return ''.join(rec.chunks), exn


def well_formed(text):
    try:
        et.fromstring(text.encode('utf-8'))
        return None
    except Exception as e:  # noqa
        return '%s: %s' % (type(e).__name__, e)


# ---------------------------------------------------------------- xmlin

TMP = tempfile.mkdtemp(prefix='pyx12_xmlin_')
__import__('atexit').register(lambda: __import__('shutil').rmtree(TMP, ignore_errors=True))


def parse_tree(xml_text):
    """the tree convert() sees (same parser arguments), or None when the text is not well-formed"""
    fn = os.path.join(TMP, 'in.xml')
    with open(fn, 'w', encoding='utf-8') as f:
        f.write(xml_text)
    try:
        parser = et.XMLParser(encoding='utf-8')
        return et.parse(fn, parser=parser).getroot()
    except et.ParseError:
        return None


def impl_xmlin(xml_text):
    import pyx12.xmlx12_simple
    fn = os.path.join(TMP, 'in.xml')
    with open(fn, 'w', encoding='utf-8') as f:
        f.write(xml_text)
    rec = errh_impl.Rec()
    exn = ''
    try:
        pyx12.xmlx12_simple.convert(fn, rec)
    except Exception as e:  # noqa
        exn = core.exn_name(e)
    return hx(''.join(rec.chunks)) + '|' + exn
