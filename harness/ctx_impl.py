"""Implementation side of the x12context correspondence check: drives the REAL
pyx12.x12context.X12ContextReader / X12DataNode classes and prints exactly the canonical text of
coq/Model/UnitsCtx.v (unit_ctxiter / unit_ctxapi).

impl_iter(text, loop_id, charset, exclude)          -> (text of one document, [map files loaded])
impl_api(text, loop_id, index, ops, charset, exclude) -> (text of one case, [map files loaded])

Messages of the errors that come from the X12Reader (through errh.handle_errors) are printed as ""
(Model/Reader.v does not model them); the walker's messages are printed.
load_map_file is wrapped to record which map files were loaded (the model needs them in its
environment) and to reuse already loaded map objects."""
import contextlib
import io
import logging

import core
import mapser
from implrun import hx, opt, tf, seg_struct

NREGS = 8

_map_cache = {}
_refmaps = {}


def show_ref(r):
    return '.'.join(str(i) for i in r)


def show_xsg(sg):
    return hx(sg.seg_term + sg.ele_term + sg.subele_term) + '/' + seg_struct(sg)


def map_root(n):
    while n.parent is not None:
        n = n.parent
    return n


def ref_table(m):
    key = id(m)
    if key not in _refmaps:
        t = {id(m): ()}
        for r, n in mapser.node_refs(m):
            if n.is_loop() or n.is_segment():
                t[id(n)] = r
        _refmaps[key] = (m, t)
    return _refmaps[key][1]


def show_mn(n):
    m = map_root(n)
    return opt(hx, m.id) + ':' + show_ref(ref_table(m)[id(n)])


def show_mns(ns):
    return ','.join(show_mn(n) for n in ns)


@contextlib.contextmanager
def patched(charset, exclude, loaded, map_path=None):
    """record/cached load_map_file; errh_list that blanks the reader's messages"""
    import pyx12.error_handler
    import pyx12.map_if
    logging.disable(logging.CRITICAL)
    real_load = pyx12.map_if.load_map_file
    real_list = pyx12.error_handler.errh_list

    def load(map_file, prm, mp=None):
        loaded.append(map_file)
        key = (map_file, charset, exclude, mp)
        if key not in _map_cache:
            _map_cache[key] = real_load(map_file, prm, mp)
        return _map_cache[key]

    class BlankList(real_list):
        def handle_errors(self, err_list):
            real_list.handle_errors(self, [(t, c, '', v, ln) for (t, c, s, v, ln) in err_list])

    pyx12.map_if.load_map_file = load
    pyx12.error_handler.errh_list = BlankList
    try:
        yield
    finally:
        pyx12.map_if.load_map_file = real_load
        pyx12.error_handler.errh_list = real_list


def make_reader(text, charset, exclude, map_path=None):
    import pyx12.error_handler
    import pyx12.params
    import pyx12.x12context
    param = pyx12.params.params()
    param.set('charset', charset)
    param.set('exclude_external_codes', exclude)
    return pyx12.x12context.X12ContextReader(param, pyx12.error_handler.errh_null(), io.StringIO(text), map_path=map_path)


# ---------------------------------------------------------------- printing

def is_node(x):
    import pyx12.x12context
    return isinstance(x, pyx12.x12context.X12DataNode)


def raw_children(n):
    c = getattr(n, 'children', None)
    return c if isinstance(c, list) else []


def locate(regs, pred):
    """first node (registers in order, preorder along children) satisfying pred -> 'reg:pos' or '?'"""
    def walk(n, pos, depth):
        if pred(n):
            return pos
        if depth > 400:
            return None
        for i, c in enumerate(raw_children(n)):
            r = walk(c, pos + (i,), depth + 1)
            if r is not None:
                return r
        return None
    for i, r in enumerate(regs):
        if is_node(r):
            p = walk(r, (), 0)
            if p is not None:
                return '%d:%s' % (i, show_ref(p))
    return '?'


def loc_node(regs, n):
    return locate(regs, lambda x: x is n)


def loc_segment(regs, sg):
    return locate(regs, lambda x: getattr(x, 'seg_data', None) is sg and sg is not None)


def show_pyref(regs, p):
    if p is None:
        return 'N'
    if isinstance(p, list):
        return 'L[' + show_mns(p) + ']'
    return 'O' + loc_node(regs, p)


def errs2(es):
    return ','.join(e[0] + '/' + hx(e[1]) for e in es)


def errs3(es):
    return ','.join(e[0] + '/' + hx(e[1]) + '/' + opt(hx, e[2]) for e in es)


def show_obj(regs, depth, n):
    import pyx12.x12context
    is_loop = isinstance(n, pyx12.x12context.X12LoopDataNode)
    sd = getattr(n, 'seg_data', None)
    return ' '.join([
        str(depth), 'L' if is_loop else 'S', tf(n.type is not None),
        'N' if n.x12_map_node is None else 'S' + show_mn(n.x12_map_node),
        show_pyref(regs, n.parent),
        'N' if sd is None else 'S' + show_xsg(sd),
        'N' if is_loop else opt(str, n.seg_count), 'N' if is_loop else opt(str, n.cur_line_number),
        show_mns(getattr(n, 'start_loops', [])), show_mns(n.end_loops),
        errs2(getattr(n, 'err_isa', [])), errs2(getattr(n, 'err_gs', [])), errs2(getattr(n, 'err_st', [])),
        errs3(getattr(n, 'err_seg', []))])


def dump_node(regs, n):
    out = []

    def walk(x, depth):
        out.append(show_obj(regs, depth, x))
        for c in raw_children(x):
            walk(c, depth + 1)
    walk(n, 0)
    return out


def show_item(regs, d):
    return ' '.join(['i', opt(hx, d['id']), hx(d['path'].format()), loc_segment(regs, d['segment']),
                     'N' if d['segment'] is None else 'S' + show_xsg(d['segment']),
                     opt(str, d['seg_count']), opt(str, d['cur_line_number'])])


def drain(gen, f):
    """items of a generator printed by f, then the exception that ended it"""
    out = []
    try:
        for x in gen:
            out.append(f(x))
    except Exception as e:  # noqa
        out.append(core.exn_name(e))
    return out


def iter_lines(regs, n):
    try:
        g = n.iterate_segments()
    except Exception as e:  # noqa
        return [core.exn_name(e)]
    return drain(g, lambda d: show_item(regs, d))


# ---------------------------------------------------------------- ctxiter

def impl_iter(text, loop_id, charset='B', exclude='', map_path=None):
    import pyx12.x12context
    loaded = []
    out = []
    with patched(charset, exclude, loaded, map_path):
        src = None
        try:
            src = make_reader(text, charset, exclude, map_path)
            src.register_error_callback(None, None)
            out.append('D ' + hx(src.seg_term + src.ele_term + src.subele_term))
            for node in src.iter_segments(loop_id if loop_id else None):
                regs = [node]
                out.append('Y ' + ('L' if isinstance(node, pyx12.x12context.X12LoopDataNode) else 'S'))
                out.extend(dump_node(regs, node))
                out.extend(iter_lines(regs, node))
            out.append('END')
        except Exception as e:  # noqa
            out.append(core.exn_name(e))
        if src is not None:
            out.append('C %d %d' % (src.cur_seg_count, src.get_cur_line))
    return '\n'.join(out), loaded


def iter_request(charset, exclude, names, docs):
    """docs: [(loop_id, text)]"""
    args = [charset, exclude, ','.join(names)]
    for (lid, text) in docs:
        args += [lid or '', text]
    return ('ctxiter', args)


# ---------------------------------------------------------------- ctxapi

def seg_arg(kind, text):
    import pyx12.segment
    if kind[:1] == 'S':
        return text
    if kind[:1] == 'O':
        dl = kind[1:] if len(kind) == 4 else '~*:'
        return pyx12.segment.Segment(text, dl[0], dl[1], dl[2])
    if kind[:1] == 'N':
        return None
    return 7


def show_loop_item(regs, d):
    if d['type'] == 'loop_end':
        return 'E' + opt(hx, d['id'])
    if d['type'] == 'loop_start':
        return 'B' + opt(hx, d['id'])
    return ' '.join(['s', opt(hx, d['id']), loc_segment(regs, d['segment']),
                     'N' if d['segment'] is None else 'S' + show_xsg(d['segment']),
                     show_mns(d['start_loops']), show_mns(d['end_loops']),
                     opt(str, d['seg_count']), opt(str, d['cur_line_number'])])


def api_op(regs, op):
    f = list(op)
    name = f[0]
    try:
        if len(f) < 2:
            return '?op'
        r = regs[int(f[1])] if f[1].isdigit() and int(f[1]) < NREGS else None
        a = f[2:]
        if name == 'get':
            return opt(hx, r.get_value(a[0]))
        if name == 'set':
            r.set_value(a[0], a[1])
            return 'ok'
        if name == 'exists':
            return tf(r.exists(a[0]))
        if name == 'count':
            return str(r.count(a[0]))
        if name == 'select':
            res = r.select(a[0])
            items, tail = [], None
            try:
                for n in res:
                    items.append(n)
            except Exception as e:  # noqa
                tail = core.exn_name(e)
            txt = ','.join([loc_node(regs, n) for n in items] + ([tail] if tail else []))
            if a[2] != '-' and tail is None and int(a[2]) < len(items):
                regs[int(a[1])] = items[int(a[2])]
            return txt
        if name == 'first':
            n = r.first(a[0])
            txt = 'N' if n is None else loc_node(regs, n)
            regs[int(a[1])] = n
            return txt
        if name == 'gfms':
            sg = r.get_first_matching_segment(a[0])
            return 'N' if sg is None else 'S' + show_xsg(sg)
        if name in ('addseg', 'addloop'):
            arg = seg_arg(a[0], a[1])
            n = r.add_segment(arg) if name == 'addseg' else r.add_loop(arg)
            txt = loc_node(regs, n)
            regs[int(a[2])] = n
            return txt
        if name == 'addnode':
            r.add_node(regs[int(a[0])])
            return 'ok'
        if name == 'delseg':
            return tf(r.delete_segment(seg_arg(a[0], a[1])))
        if name == 'delnode':
            return tf(r.delete_node(a[0]))
        if name == 'delete':
            r.delete()
            return 'ok'
        if name == 'copy':
            n = r.copy()
            regs[int(a[0])] = n
            return 'ok'
        if name == 'iter':
            return ';'.join(drain(r.iterate_segments(), lambda d: show_item(regs, d)))
        if name == 'iterloop':
            return ';'.join(drain(r.iterate_loop_segments(), lambda d: show_loop_item(regs, d)))
        if name == 'segcount':
            return opt(str, r.seg_count)
        if name == 'curline':
            return opt(str, r.cur_line_number)
        if name == 'id':
            return opt(hx, r.id)
        if name == 'curpath':
            return opt(hx, r.cur_path)
        if name == 'errct':
            return str(r.err_ct)
        if name == 'parent':
            regs[int(a[0])] = r.parent
            return 'ok'
        if name == 'child':
            regs[int(a[1])] = r.children[int(a[0])]
            return 'ok'
        return '?op'
    except Exception as e:  # noqa
        return core.exn_name(e)


def final_dump(regs):
    out = []
    for i, r in enumerate(regs):
        head = 'R%d' % i
        if r is None:
            continue
        if isinstance(r, list):
            out.append(head + '=L[' + show_mns(r) + ']')
            continue
        prev = locate(regs[:i], lambda x: x is r)
        if prev != '?':
            out.append(head + '=@' + prev)
            continue
        out.append(head + ':')
        out.extend(dump_node(regs, r))
        out.extend(iter_lines(regs, r))
    return out


def impl_api(text, loop_id, index, ops, charset='B', exclude='', map_path=None):
    loaded = []
    out = []
    with patched(charset, exclude, loaded, map_path):
        node = None
        try:
            src = make_reader(text, charset, exclude, map_path)
            k = 0
            found = False
            for n in src.iter_segments(loop_id if loop_id else None):
                if k == index:
                    node, found = n, True
                    break
                k += 1
            if not found:
                return 'NOITEM', loaded
        except Exception as e:  # noqa
            return core.exn_name(e), loaded
        regs = [node] + [None] * (NREGS - 1)
        for op in ops:
            out.append(api_op(regs, op))
        out.extend(final_dump(regs))
    return '\n'.join(out), loaded


def api_request(charset, exclude, names, cases):
    """cases: [(text, loop_id, index, ops)]"""
    args = [charset, exclude, ','.join(names)]
    for (text, lid, index, ops) in cases:
        args += [text, lid or '', str(index)]
        for o in ops:
            args += list(o)
        args.append('--')
    return ('ctxapi', args)


ARITY = {'delete': 1, 'iter': 1, 'iterloop': 1, 'segcount': 1, 'curline': 1, 'id': 1, 'curpath': 1, 'errct': 1,
         'get': 2, 'exists': 2, 'count': 2, 'gfms': 2, 'addnode': 2, 'delnode': 2, 'copy': 2, 'parent': 2,
         'set': 3, 'first': 3, 'delseg': 3, 'child': 3, 'select': 4, 'addseg': 4, 'addloop': 4}


def op(name, *fields):
    """an op: a tuple of strings (name, fields...), as many fields as UnitsCtx.op_arity says"""
    assert len(fields) == ARITY[name], (name, fields)
    return tuple([name] + [str(x) for x in fields])
