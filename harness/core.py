"""Core of the check machinery: regenerate, build, run model / implementation,
compare, decide, write evidence.  Runs under /venv/bin/python with
PYTHONPATH=/repo (see ../check)."""
import fcntl
import fnmatch
import hashlib
import json
import os
import random
import re
import subprocess
import sys
import time

VERIF = os.path.dirname(os.path.dirname(os.path.abspath(__file__)))
REPO = os.environ.get('PYX12_REPO', '/repo')
COQ = os.path.join(VERIF, 'coq')
OCAML = os.path.join(VERIF, 'ocaml')
BUILD = os.path.join(VERIF, 'build')
EVID = os.path.join(VERIF, 'evidence')
REPLAY = os.path.join(VERIF, 'replay')
PY = '/venv/bin/python'
NPROC = int(os.environ.get('VERIF_JOBS', '16'))

FORBIDDEN = re.compile(
    r'\b(Admitted|admit|Axiom|Axioms|Parameter|Parameters|Conjecture|Conjectures|Admit Obligations)\b'
    r'|Unset\s+Guard|Unset\s+Positivity|Unset\s+Universe|bypass_check|-type-in-type|-impredicative-set'
    r'|native_compute')


def log(msg):
    sys.stderr.write('[check] %s\n' % msg)
    sys.stderr.flush()


def sh(cmd, cwd=None, timeout=None, env=None):
    """run, return (rc, combined output)"""
    e = dict(os.environ)
    if env:
        e.update(env)
    try:
        p = subprocess.run(cmd, cwd=cwd, shell=isinstance(cmd, str), stdout=subprocess.PIPE,
                           stderr=subprocess.STDOUT, timeout=timeout, env=e)
        return p.returncode, p.stdout.decode('utf-8', 'replace')
    except subprocess.TimeoutExpired as ex:
        out = ex.stdout.decode('utf-8', 'replace') if ex.stdout else ''
        return 124, out + '\n[timeout after %ss]' % timeout


class Lock(object):
    def __init__(self):
        os.makedirs(BUILD, exist_ok=True)
        self.f = open(os.path.join(BUILD, '.lock'), 'w')

    def __enter__(self):
        fcntl.flock(self.f, fcntl.LOCK_EX)
        return self

    def __exit__(self, *a):
        fcntl.flock(self.f, fcntl.LOCK_UN)
        self.f.close()


# ---------------------------------------------------------------- build

GENERATORS = ['regexes.py', 'tables.py', 'consts.py', 'maps.py', 'c16.py', 'effects.py']


def all_generators():
    return [g for g in sorted(os.listdir(os.path.join(VERIF, 'tools', 'gen')))
            if g.endswith('.py') and g not in GENERATORS and g not in HELPERS]


HELPERS = ['common.py', 'tables_more.py', 'consts_impl.py']


def regenerate(extra=()):
    """Re-emit coq/Gen from /repo's working tree.  Returns list of failures."""
    fails = []
    env = {'PYTHONPATH': REPO + ':' + os.path.join(VERIF, 'tools', 'gen'), 'PYTHONDONTWRITEBYTECODE': '1',
           'PYTHONHASHSEED': '0', 'PYX12_REPO': REPO}
    for g in list(GENERATORS) + list(extra):
        path = os.path.join(VERIF, 'tools', 'gen', g)
        if not os.path.exists(path):
            continue
        rc, out = sh([PY, '-W', 'ignore', path], cwd=VERIF, timeout=900, env=env)
        if rc != 0:
            fails.append({'generator': g, 'output': out[-2000:]})
    return fails


def forbidden_scan():
    bad = []
    for root, _, files in os.walk(COQ):
        for fn in files:
            if fn.endswith('.v'):
                p = os.path.join(root, fn)
                with open(p, errors='replace') as f:
                    for i, line in enumerate(f, 1):
                        code = re.sub(r'\(\*.*?\*\)', '', line)
                        if FORBIDDEN.search(code):
                            bad.append('%s:%d: %s' % (os.path.relpath(p, VERIF), i, line.strip()[:120]))
    return bad


def ensure_makefile():
    files = []
    for d in ('Lib', 'Gen', 'Model', 'Spec', 'Proofs', 'Props'):
        for root, _, fns in os.walk(os.path.join(COQ, d)):
            for fn in sorted(fns):
                if fn.endswith('.v'):
                    files.append(os.path.relpath(os.path.join(root, fn), COQ))
    with open(os.path.join(COQ, '_CoqProject.base')) as f:
        base = f.read()
    text = base + '\n'.join(sorted(files)) + '\n'
    proj = os.path.join(COQ, '_CoqProject')
    old = open(proj).read() if os.path.exists(proj) else None
    if old != text or not os.path.exists(os.path.join(COQ, 'Makefile')):
        with open(proj, 'w') as f:
            f.write(text)
        rc, out = sh('coq_makefile -f _CoqProject -o Makefile', cwd=COQ, timeout=120)
        if rc != 0:
            raise RuntimeError('coq_makefile failed: ' + out)


def make(targets, timeout=3000, keep_going=True):
    cmd = ['make', '-j%d' % NPROC] + (['-k'] if keep_going else []) + list(targets)
    # each coqc under its own timeout
    env = {'COQC': 'timeout 1500 coqc', 'TIMED': ''}
    return sh(cmd, cwd=COQ, timeout=timeout, env=env)


def build_driver():
    """Extract the model to OCaml and build the driver; returns (ok, log)."""
    rc, out = make(['Model/UnitsMap.vo'], keep_going=False)
    if rc != 0:
        return False, out
    stamp = os.path.join(OCAML, '.stamp')
    units_vo = os.path.join(COQ, 'Model', 'UnitsMap.vo')
    drv = os.path.join(OCAML, 'driver')
    srcs = [units_vo, os.path.join(OCAML, 'driver.ml'), os.path.join(COQ, 'Extraction.v')]
    if os.path.exists(drv) and os.path.exists(stamp) and \
            all(os.path.getmtime(s) <= os.path.getmtime(stamp) for s in srcs):
        return True, 'up to date'
    flags = '-Q ../coq/Lib PX.Lib -Q ../coq/Gen PX.Gen -Q ../coq/Model PX.Model -Q ../coq/Spec PX.Spec'
    rc, out = sh('timeout 900 coqc %s ../coq/Extraction.v' % flags, cwd=OCAML, timeout=1000)
    if rc != 0:
        return False, out
    rc, out2 = sh('ocamlfind ocamlopt -w -a model.mli model.ml driver.ml -o driver', cwd=OCAML, timeout=900)
    if rc != 0:
        return False, out + out2
    with open(stamp, 'w') as f:
        f.write(str(time.time()))
    return True, out + out2


def build_property(prop, theorem_files):
    """(Re)compile the statement files of a property, capturing Print Assumptions.
    Returns dict with obligations/discharged/assumptions/broken/log."""
    res = {'obligations': 0, 'discharged': 0, 'assumptions': [], 'broken': [], 'log': ''}
    for tf in theorem_files:
        src = os.path.join(COQ, tf)
        if not os.path.exists(src):
            res['broken'].append(tf + ' (missing)')
            continue
        with open(src) as f:
            text = f.read()
        text_nc = re.sub(r'\(\*.*?\*\)', '', text, flags=re.S)
        n_thm = len(re.findall(r'^\s*(Theorem|Corollary)\s', text_nc, flags=re.M))
        res['obligations'] += n_thm
        vo = src[:-2] + '.vo'
        if os.path.exists(vo):
            os.remove(vo)
        rc, out = make([tf[:-2] + '.vo'], keep_going=False)
        res['log'] += out[-6000:]
        closed = len(re.findall(r'Closed under the global context', out))
        axiom_blocks = re.findall(r'Axioms:\n((?:.+\n)+?)(?=\S|\Z)', out)
        n_ax = len(re.findall(r'^Axioms:', out, flags=re.M))
        for blk in axiom_blocks:
            for ln in blk.splitlines():
                m = re.match(r'^(\S+)\s*:', ln)
                if m:
                    res['assumptions'].append(m.group(1))
        if rc == 0:
            res['discharged'] += n_thm
        else:
            res['discharged'] += min(n_thm, closed + n_ax)
            failing = re.findall(r'File "\./([^"]+)", line (\d+)', out)
            res['broken'].append('%s (failing at %s)' % (tf, ', '.join('%s:%s' % x for x in failing[:3]) or 'unknown'))
    res['assumptions'] = sorted(set(res['assumptions']))
    return res


# ---------------------------------------------------------------- model runner

def hexarg(s):
    if isinstance(s, str):
        s = s.encode('latin-1')
    return s.hex() if s else '-'


class ModelRunner(object):
    """Runs batches of requests through the extracted model."""

    def __init__(self):
        self.driver = os.path.join(OCAML, 'driver')

    def run(self, requests, shards=None, preload=()):
        """requests: list of (unit, [args as str]) -> list of result strings (latin-1).
        preload: list of (name, serialisation) sent to every shard first (`loadxml`)."""
        if not requests:
            return []
        shards = shards or min(NPROC, max(1, len(requests) // 200))
        lines = ['%s %s' % (u, ' '.join(hexarg(a) for a in args)) for (u, args) in requests]
        pre = ['loadxml %s %s' % (hexarg(n), hexarg(x)) for (n, x) in preload]
        chunks = [lines[i::shards] for i in range(shards)]
        procs = []
        for ch in chunks:
            p = subprocess.Popen(['bash', '-c', 'ulimit -s unlimited 2>/dev/null; exec "%s"' % self.driver],
                                 stdin=subprocess.PIPE, stdout=subprocess.PIPE)
            procs.append((p, ch))
        outs = []
        import threading
        results = [None] * len(procs)

        def feed(i, p, ch):
            o, _ = p.communicate(('\n'.join(pre + ch) + '\n').encode('ascii'))
            results[i] = o.decode('ascii').split('\n')[len(pre):]
        ths = [threading.Thread(target=feed, args=(i, p, ch)) for i, (p, ch) in enumerate(procs)]
        for t in ths:
            t.start()
        for t in ths:
            t.join()
        out = [None] * len(lines)
        for si in range(shards):
            r = results[si]
            for j in range(len(chunks[si])):
                idx = si + j * shards
                h = r[j] if j < len(r) else ''
                try:
                    out[idx] = bytes.fromhex(h).decode('latin-1')
                except ValueError:
                    out[idx] = '?driver:' + h
        return out


# ---------------------------------------------------------------- implementation side helpers

def exn_name(e):
    n = type(e).__name__
    known = ('X12Error', 'EngineError', 'X12PathError', 'IndexError', 'ValueError', 'TypeError',
             'AttributeError', 'KeyError', 'UnboundLocalError')
    return '!' + n if n in known else '!Other'


def call_impl(f, *a, **kw):
    """call implementation, mapping exceptions to the model's enum"""
    try:
        return f(*a, **kw)
    except Exception as e:  # noqa
        return exn_name(e)


# ---------------------------------------------------------------- findings, report, evidence

def load_known():
    p = os.path.join(VERIF, 'known_findings.json')
    if not os.path.exists(p):
        return []
    with open(p) as f:
        return json.load(f)['entries']


class Report(object):
    """What a property module hands back."""

    def __init__(self, prop):
        self.prop = prop
        self.evaluations = 0
        self.nontrivial = set()
        self.rule = ''
        self.samples = []
        self.distribution = {}
        self.corr = {}            # unit -> {'cases': n, 'disagreements': n}
        self.disagreements = []   # {'unit','input','model','impl'}
        self.failures = []        # oracle failures on the implementation: {'key','what','input',...}
        self.notes = []
        self.exhaustive = False

    def count(self, what, n=1):
        self.distribution[what] = self.distribution.get(what, 0) + n

    def case(self, fingerprint, nontrivial=True):
        self.evaluations += 1
        if nontrivial:
            self.nontrivial.add(hashlib.md5(repr(fingerprint).encode('utf-8', 'replace')).hexdigest()[:12])

    def sample(self, s, limit=6):
        if len(self.samples) < limit:
            self.samples.append(s)

    def corr_case(self, unit, inp, model, impl):
        c = self.corr.setdefault(unit, {'cases': 0, 'disagreements': 0})
        c['cases'] += 1
        if model != impl:
            c['disagreements'] += 1
            if len([d for d in self.disagreements if d['unit'] == unit]) < 5:
                self.disagreements.append({'unit': unit, 'input': inp, 'model': model, 'impl': impl})
            return False
        return True

    def fail(self, key, what, inp, **extra):
        if len([f for f in self.failures if f['key'] == key]) < 3:
            d = {'key': key, 'what': what, 'input': inp}
            d.update(extra)
            self.failures.append(d)


def decide(prop, tier, seed, t0, gen_fails, forbidden, build, driver_ok, driver_log, report, meta):
    """Print verdict lines, write evidence, return exit code."""
    os.makedirs(EVID, exist_ok=True)
    os.makedirs(REPLAY, exist_ok=True)
    known = [k for k in load_known() if k.get('property') == prop]
    findings = [k for k in known if k.get('kind') == 'finding']
    violations = 0
    lines = []
    unexplained = []
    seen_known = {}
    for f in report.failures:
        hit = None
        for k in findings:
            if any(fnmatch.fnmatchcase(f['key'], pat) for pat in k.get('keys', [])):
                hit = k
                break
        if hit is not None:
            seen_known.setdefault(hit['id'], (hit, f))
        else:
            unexplained.append(f)
    for kid, (k, f) in sorted(seen_known.items()):
        lines.append('KNOWN-FINDING: property=%s %s [%s]' % (prop, k['what'], kid))
    # findings listed but not reproduced in this run are still printed (they are part of the record)
    for k in findings:
        if k['id'] not in seen_known:
            lines.append('KNOWN-FINDING: property=%s %s [%s] (not re-observed by this run)' % (prop, k['what'], k['id']))
    broken = []
    if gen_fails:
        broken += ['translator:%s' % g['generator'] for g in gen_fails]
    if forbidden:
        broken += ['forbidden-construct:%s' % b for b in forbidden[:5]]
    broken += ['theorem-file:%s' % b for b in build['broken']]
    if not driver_ok:
        broken.append('model-extraction')
    for unit, c in sorted(report.corr.items()):
        if c['disagreements']:
            broken.append('correspondence:%s (%d of %d cases disagree)' % (unit, c['disagreements'], c['cases']))
    rc = 0
    if unexplained:
        by_key = {}
        for f in unexplained:
            by_key.setdefault(f['key'], f)
        for key, f in sorted(by_key.items()):
            path = os.path.join(REPLAY, '%s_%s.json' % (prop, re.sub(r'[^A-Za-z0-9_.-]', '_', key)[:80]))
            with open(path, 'w') as fh:
                json.dump({'property': prop, 'kind': 'failing-input', 'failure': f, 'broken': broken,
                           'disagreements': report.disagreements[:3],
                           'seed': seed, 'tier': tier}, fh, indent=1, default=repr)
            lines.append('VIOLATION property=%s replay=%s' % (prop, path))
            violations += 1
        rc = 1
    elif broken:
        path = os.path.join(REPLAY, '%s_broken.json' % prop)
        with open(path, 'w') as fh:
            json.dump({'property': prop, 'kind': 'no-failing-input-found', 'broken': broken,
                       'disagreements': report.disagreements, 'generator_failures': gen_fails,
                       'build_log_tail': build['log'][-4000:], 'driver_log_tail': (driver_log or '')[-2000:],
                       'seed': seed, 'tier': tier}, fh, indent=1, default=repr)
        lines.append('VIOLATION property=%s replay=%s no-failing-input-found' % (prop, path))
        violations += 1
        rc = 1
    for ln in lines:
        print(ln)
    tb = list(meta.get('trusted_base', []))
    tb.append('Print Assumptions (this build): ' +
              ('Closed under the global context for every theorem' if not build['assumptions']
               else 'axioms used: ' + ', '.join(build['assumptions'])))
    cov = {
        'obligations': build['obligations'],
        'discharged': build['discharged'],
        'checker_cmd': 'make -C coq %s  (coqc 8.16.1, full .vo build; Print Assumptions after each theorem)' % ' '.join(
            t[:-2] + '.vo' for t in meta['theorem_files']),
        'trusted_base': tb,
        'theorems': meta.get('theorems', []),
        'broken': broken,
        'evaluations': report.evaluations,
        'distinct_nontrivial': len(report.nontrivial),
        'rule': report.rule,
        'samples': report.samples or ['(no sample recorded)'],
        'correspondence': report.corr,
        'disagreement_samples': report.disagreements[:5],
        'input_distribution': report.distribution,
        'oracle_failures_unlisted': len(unexplained),
        'known_findings_observed': sorted(seen_known.keys()),
        'exhaustive': report.exhaustive,
        'notes': report.notes,
    }
    ev = {
        'property_id': prop, 'tier': tier, 'seed': seed, 'level': 'proof', 'coverage': cov,
        'assumptions': meta.get('assumptions', []),
        'wall_s': round(time.time() - t0, 2), 'violations': violations,
    }
    with open(os.path.join(EVID, '%s.json' % prop), 'w') as fh:
        json.dump(ev, fh, indent=1, default=repr)
    print('RESULT property=%s tier=%s obligations=%d discharged=%d corr_cases=%d disagreements=%d '
          'oracle_failures=%d known=%d wall=%.1fs -> %s' % (
              prop, tier, build['obligations'], build['discharged'],
              sum(c['cases'] for c in report.corr.values()),
              sum(c['disagreements'] for c in report.corr.values()),
              len(unexplained), len(seen_known), time.time() - t0, 'FAIL' if rc else 'ok'))
    return rc
