"""Run the whole validator / context reader / XML converter on a document and return all observable
outputs in a comparable (masked) form.  Used in-process and as a subprocess (fresh interpreter)."""
import io
import json
import re
import sys


def mask_ack(text):
    """mask the acknowledgement's own envelope timestamps and generated control numbers"""
    if not text:
        return text
    out = []
    for line in text.split('\n'):
        parts = line.split('*')
        if parts[0] == 'ISA' and len(parts) >= 14:
            parts[9], parts[10], parts[13] = 'DATE', 'TIME', 'CTRL'
        elif parts[0] == 'GS' and len(parts) >= 7:
            parts[4], parts[5], parts[6] = 'DATE', 'TIME', 'CTRL'
        elif parts[0] == 'GE' and len(parts) >= 3:
            parts[2] = 'CTRL~' if parts[2].endswith('~') else 'CTRL'
        elif parts[0] == 'IEA' and len(parts) >= 3:
            parts[2] = 'CTRL~' if parts[2].endswith('~') else 'CTRL'
        out.append('*'.join(parts))
    return '\n'.join(out)


def mask_html(text):
    return re.sub(r'Analysis Date: [^<]*<', 'Analysis Date: DATE<', text or '')


def run_all(text, charset='E', reuse_param=None, exclude=None):
    """-> dict of observable outputs (all strings)"""
    import pyx12.params
    import pyx12.x12n_document
    import pyx12.x12context
    import pyx12.error_handler
    res = {}
    param = reuse_param if reuse_param is not None else pyx12.params.params()
    param.set('charset', charset)
    param.set('exclude_external_codes', exclude)
    fd_997, fd_html, fd_xml = io.StringIO(), io.StringIO(), io.StringIO()
    try:
        v = pyx12.x12n_document.x12n_document(param, io.StringIO(text), fd_997, fd_html, fd_xml)
        res['verdict'] = repr(v)
    except Exception as e:  # noqa
        res['verdict'] = 'raise:' + type(e).__name__
    res['ack'] = mask_ack(fd_997.getvalue())
    res['html'] = mask_html(fd_html.getvalue())
    res['xml'] = fd_xml.getvalue()
    # context reader
    try:
        errh = pyx12.error_handler.errh_null()
        src = pyx12.x12context.X12ContextReader(param, errh, io.StringIO(text))
        segs = []
        import random as _r
        lid = _r.Random(len(text)).choice(['2300', '2100', '2000', 'ST_LOOP', '2000A'])
        for datatree in src.iter_segments(lid):
            for seg in datatree.iterate_segments():
                segs.append(seg['segment'].format())
            # the tree API as a user would drive it: the loop-event stream of the tree and of a COPY of it, and an edit of the copy
            if datatree.type == 'loop' and len(segs) < 20000:
                k_ = 0
                for ev in datatree.iterate_loop_segments():
                    segs.append('%s:%s' % (ev['type'], ev.get('id') or (ev['segment'].get_seg_id() if ev.get('segment') is not None else '')))
                    k_ += 1
                    if k_ > 3000:
                        segs.append('MORE-THAN-3000-EVENTS')
                        break
                cp = datatree.copy()
                k_ = 0
                for ev in cp.iterate_loop_segments():
                    segs.append('copy:%s:%s' % (ev['type'], ev.get('id') or (ev['segment'].get_seg_id() if ev.get('segment') is not None else '')))
                    k_ += 1
                    if k_ > 3000:
                        segs.append('MORE-THAN-3000-EVENTS')
                        break
        res['context'] = '\n'.join(segs)
    except Exception as e:  # noqa
        res['context'] = 'raise:' + type(e).__name__
    # xml -> x12
    try:
        import os
        import tempfile
        import pyx12.xmlx12_simple
        fd, path = tempfile.mkstemp(prefix='docrun_', suffix='.xml')
        os.close(fd)
        try:
            with open(path, 'w') as f:
                f.write(res['xml'])
            out = io.StringIO()
            pyx12.xmlx12_simple.convert(path, out)
            res['back'] = out.getvalue()
        finally:
            os.remove(path)
    except Exception as e:  # noqa
        res['back'] = 'raise:' + type(e).__name__
    return res


if __name__ == '__main__':
    # fresh interpreter: one document on stdin (json: text, charset), result on stdout
    req = json.load(sys.stdin)
    import warnings
    warnings.simplefilter('ignore')
    import logging
    logging.disable(logging.CRITICAL)
    json.dump(run_all(req['text'], req.get('charset', 'E'), exclude=req.get('exclude')), sys.stdout)
