"""Drive the REAL pyx12.error_handler.err_handler / error_997_visitor /
error_999_visitor with an event list and print exactly the canonical text that
coq/Model/UnitsErrh.v:unit_errh prints for the same (encoded) event list.

Events (Python side) are tuples; `encode_event` gives the model's encoding:
  ('I'|'G'|'T', delims, text, src)            add_isa_loop / add_gs_loop / add_st_loop
  ('S', mapnode|None, delims, text, seg_count, cur_line, ls_id)   add_seg; mapnode = (name, pos)
  ('E', data_ele, name, seq, parent_is_composite, parent_seq)     add_ele
  ('i'|'g'|'t', code, msg)                    isa_error / gs_error / st_error
  ('s', code, msg, value, src_line)           seg_error
  ('e', code, msg, bad_value)                 ele_error
  ('X'|'Z', src)                              close_isa_loop / close_st_loop
  ('Y', (delims, text)|None, src)             close_gs_loop
  ('H', [(type, code, msg, value, src_line), ...])                handle_errors
  ('C',)                                      get_error_count
src = (isa_id, gs_id, st_id, cur_line, st_count); clock = (ymd6, hm, ymd8, hms, rand)

Set iteration order: since fix 45b72b1 the visitors iterate the unique codes in sorted order
(visit_seg) or in first-seen order (error_999.__get_isa_errors); the model does the same, no shim."""
import copy
import logging
import random
import time

import core

US = '\x1f'
RS = '\x1e'


def hx(s):
    return s.encode('latin-1').hex()


def oS(v):
    return 'N' if v is None else 'S' + v


def oZ(v):
    return 'N' if v is None else str(v)


def tf(b):
    return 'T' if b else 'F'


def sh_os(v):
    return 'N' if v is None else 'S' + hx(v)


def sh_oz(v):
    return 'N' if v is None else 'S' + str(v)


# ---------------------------------------------------------------- encoding for the model

def enc_src(src):
    return [oS(src[0]), oS(src[1]), oS(src[2]), oZ(src[3]), str(src[4])]


def encode_event(ev):
    k = ev[0]
    if k in 'IGT':
        f = [ev[1], ev[2]] + enc_src(ev[3])
    elif k == 'S':
        mn = ev[1]
        f = ['N', '', '0'] if mn is None else ['S', mn[0], str(mn[1])]
        f += [ev[2], ev[3], oZ(ev[4]), oZ(ev[5]), oS(ev[6])]
    elif k == 'E':
        f = [oS(ev[1]), ev[2], str(ev[3]), tf(ev[4]), str(ev[5])]
    elif k in 'igt':
        f = [ev[1], ev[2]]
    elif k == 's':
        f = [ev[1], ev[2], oS(ev[3]), oZ(ev[4])]
    elif k == 'e':
        f = [ev[1], ev[2], oS(ev[3])]
    elif k in 'XZ':
        f = enc_src(ev[1])
    elif k == 'Y':
        sg = ev[1]
        f = (['N', '~*:', ''] if sg is None else ['S', sg[0], sg[1]]) + enc_src(ev[2])
    elif k == 'H':
        return 'H' + RS.join(US.join([t, c, m, oS(v), oZ(ln)]) for (t, c, m, v, ln) in ev[1])
    elif k == 'C':
        return 'C'
    else:
        raise ValueError(k)
    return k + US.join(f)


def encode_clock(clock):
    return US.join([clock[0], clock[1], clock[2], clock[3], str(clock[4])])


def model_request(clock, events):
    return ('errh', [encode_clock(clock)] + [encode_event(e) for e in events])


# ---------------------------------------------------------------- fakes handed to the implementation

class FakeSrc(object):
    def __init__(self, src):
        (self.isa_id, self.gs_id, self.st_id, self.cur_line, self.st_count) = src

    def get_isa_id(self):
        return self.isa_id

    def get_gs_id(self):
        return self.gs_id

    def get_st_id(self):
        return self.st_id

    def get_cur_line(self):
        return self.cur_line


class FakeSegNode(object):
    def __init__(self, name, pos):
        self.name = name
        self.pos = pos


class FakeParent(object):
    def __init__(self, comp, seq):
        self._comp = comp
        self.seq = seq

    def is_composite(self):
        return self._comp


class FakeEleNode(object):
    def __init__(self, data_ele, name, seq, comp, parent_seq):
        self.data_ele = data_ele
        self.name = name
        self.seq = seq
        self.parent = FakeParent(comp, parent_seq)


def mk_seg(delims, text):
    import pyx12.segment
    return pyx12.segment.Segment(text, delims[0], delims[1], delims[2])


def apply_event(errh, ev):
    k = ev[0]
    if k == 'I':
        errh.add_isa_loop(mk_seg(ev[1], ev[2]), FakeSrc(ev[3]))
    elif k == 'G':
        errh.add_gs_loop(mk_seg(ev[1], ev[2]), FakeSrc(ev[3]))
    elif k == 'T':
        errh.add_st_loop(mk_seg(ev[1], ev[2]), FakeSrc(ev[3]))
    elif k == 'S':
        mn = None if ev[1] is None else FakeSegNode(ev[1][0], ev[1][1])
        errh.add_seg(mn, mk_seg(ev[2], ev[3]), ev[4], ev[5], ev[6])
    elif k == 'E':
        errh.add_ele(FakeEleNode(ev[1], ev[2], ev[3], ev[4], ev[5]))
    elif k == 'i':
        errh.isa_error(ev[1], ev[2])
    elif k == 'g':
        errh.gs_error(ev[1], ev[2])
    elif k == 't':
        errh.st_error(ev[1], ev[2])
    elif k == 's':
        errh.seg_error(ev[1], ev[2], ev[3], ev[4])
    elif k == 'e':
        errh.ele_error(ev[1], ev[2], ev[3])
    elif k == 'X':
        errh.close_isa_loop(None, None, FakeSrc(ev[1]))
    elif k == 'Z':
        errh.close_st_loop(None, None, FakeSrc(ev[1]))
    elif k == 'Y':
        errh.close_gs_loop(None, None if ev[1] is None else mk_seg(ev[1][0], ev[1][1]), FakeSrc(ev[2]))
    elif k == 'H':
        errh.handle_errors(list(ev[1]))
    else:
        raise ValueError(k)


# ---------------------------------------------------------------- canonical dump

def sh_errs2(es):
    return '[' + ';'.join(hx(c) + '.' + hx(m) for (c, m) in es) + ']'


def sh_errs3(es):
    return '[' + ';'.join(hx(c) + '.' + hx(m) + '.' + sh_os(v) for (c, m, v) in es) + ']'


def marks(errh, node):
    out = ''
    if node is errh.cur_isa_node:
        out += 'i'
    if node is errh.cur_gs_node:
        out += 'g'
    if node is errh.cur_st_node:
        out += 't'
    if node is errh.cur_seg_node:
        out += 's'
    if node is errh.cur_ele_node:
        out += 'e'
    return out


def wrap(tag, fields):
    return tag + '{' + ','.join(fields) + '}'


def dump_ele(errh, e):
    return wrap('L', [sh_os(e.ele_ref_num), hx(e.name), str(e.ele_pos), sh_oz(e.subele_pos), sh_errs3(e.errors),
                      marks(errh, e)])


def dump_eles(errh, es):
    return '[' + ';'.join(dump_ele(errh, e) for e in es) + ']'


def dump_seg(errh, n):
    return wrap('S', [hx(n.name), str(n.pos), sh_os(n.seg_id), sh_oz(n.seg_count), sh_oz(n.cur_line), sh_os(n.ls_id),
                      sh_errs3(n.errors), marks(errh, n), str(n.err_count()), str(n.child_err_count()),
                      dump_eles(errh, n.elements)])


def dump_st(errh, n):
    return wrap('T', [hx(n.seg_data.format()), sh_os(n.trn_set_control_num), sh_oz(n.cur_line_st), sh_oz(n.cur_line_se),
                      sh_os(n.trn_set_id), sh_os(n.vriic), sh_os(n.ack_code), sh_errs2(n.errors), marks(errh, n),
                      tf(n.is_closed()), sh_oz(n.get_cur_line()), str(n.err_count()), str(n.child_err_count()),
                      sh_errs2(n.get_error_list('ST')), sh_errs2(n.get_error_list('SE')), sh_errs2(n.get_error_list('REF')),
                      dump_eles(errh, n.elements),
                      '[' + ';'.join(dump_seg(errh, c) for c in n.children) + ']'])


def dump_gs(errh, n):
    return wrap('G', [hx(n.seg_data.format()), sh_os(n.isa_id), sh_oz(n.cur_line_gs), sh_oz(n.cur_line_ge),
                      sh_os(n.gs_control_num), sh_os(n.fic), sh_os(n.vriic), sh_os(n.ack_code),
                      str(n.st_count_orig), str(n.st_count_recv), sh_errs2(n.errors), marks(errh, n),
                      tf(n.is_closed()), sh_oz(n.get_cur_line()), str(n.get_error_count()), str(n.count_failed_st()),
                      hx(n._get_ack_code()), sh_errs2(n.get_error_list('GS')), sh_errs2(n.get_error_list('GE')),
                      sh_errs2(n.get_error_list('REF')),
                      dump_eles(errh, n.elements),
                      '[' + ';'.join(dump_st(errh, c) for c in n.children) + ']'])


def dump_isa(errh, n):
    return wrap('I', [hx(n.seg_data.format()), sh_os(n.isa_id), sh_oz(n.cur_line_isa), sh_oz(n.cur_line_iea),
                      sh_os(n.isa_trn_set_id), sh_os(n.ta1_req), sh_os(n.orig_date), sh_os(n.orig_time),
                      sh_errs2(n.errors), marks(errh, n), tf(n.is_closed()), sh_oz(n.get_cur_line()),
                      str(n.get_error_count()), sh_errs2(n.get_error_list('ISA')), sh_errs2(n.get_error_list('IEA')),
                      sh_errs2(n.get_error_list('REF')),
                      dump_eles(errh, n.elements),
                      '[' + ';'.join(dump_gs(errh, c) for c in n.children) + ']'])


def reachable(errh):
    segs, eles = [], []
    for i in errh.children:
        eles.extend(i.elements)
        for g in i.children:
            eles.extend(g.elements)
            for t in g.children:
                eles.extend(t.elements)
                for s in t.children:
                    segs.append(s)
                    eles.extend(s.elements)
    return segs, eles


def dump_state(errh):
    segs, eles = reachable(errh)
    cs = errh.cur_seg_node
    if cs is None:
        cur_seg = 'N'
    elif cs.id in ('ISA', 'GS', 'ST'):
        cur_seg = cs.id
    elif any(cs is s for s in segs):
        cur_seg = 'SEG'
    else:
        cur_seg = 'detached:' + dump_seg(errh, cs)
    ce = errh.cur_ele_node
    if ce is None:
        cur_ele = 'N'
    elif any(ce is e for e in eles):
        cur_ele = 'ELE'
    else:
        cur_ele = 'detached:' + dump_ele(errh, ce)
    ea = getattr(errh, 'ele_node_added', None)
    return ('[' + ';'.join(dump_isa(errh, i) for i in errh.children) + ']' +
            '|seg_added=' + tf(errh.seg_node_added) +
            '|ele_added=' + ('N' if ea is None else 'S' + tf(ea)) +
            '|cur_isa=' + tf(errh.cur_isa_node is not None) +
            '|cur_gs=' + tf(errh.cur_gs_node is not None) +
            '|cur_st=' + tf(errh.cur_st_node is not None) +
            '|cur_seg=' + cur_seg + '|cur_ele=' + cur_ele)


# ---------------------------------------------------------------- visitors

class Rec(object):
    """a write-only file object remembering every write"""

    def __init__(self):
        self.chunks = []

    def write(self, s):
        self.chunks.append(s)


class sorted_iter_set(set):
    """set whose iteration order is sorted (see the module docstring)"""

    def __iter__(self):
        return iter(sorted(set.__iter__(self)))


class Patched(object):
    """time.strftime / random.randint pinned to the clock, `set` iteration sorted in the two visitor modules"""

    def __init__(self, clock):
        self.table = {'%y%m%d': clock[0], '%H%M': clock[1], '%Y%m%d': clock[2], '%H%M%S': clock[3]}
        self.rand = clock[4]

    def __enter__(self):
        import pyx12.error_997
        import pyx12.error_999
        self.mods = (pyx12.error_997, pyx12.error_999)
        self.old = (time.strftime, random.randint)
        table = self.table
        rand = self.rand
        time.strftime = lambda fmt, *a: table[fmt]
        random.randint = lambda a, b: rand
        return self

    def __exit__(self, *a):
        time.strftime, random.randint = self.old


def render(which, errh):
    import pyx12.error_997
    import pyx12.error_999
    rec = Rec()
    exn = ''
    try:
        v = pyx12.error_997.error_997_visitor(rec) if which == 997 else pyx12.error_999.error_999_visitor(rec)
        errh.accept(v)
    except Exception as e:  # noqa
        exn = core.exn_name(e)
    return ','.join(hx(c) for c in rec.chunks) + '|' + exn


def impl_errh(clock, events):
    """the same text as Model.UnitsErrh.unit_errh"""
    import pyx12.error_handler
    logging.disable(logging.CRITICAL)
    errh = pyx12.error_handler.err_handler()
    trace = []
    for ev in events:
        if ev[0] == 'C':
            try:
                trace.append(str(errh.get_error_count()))
            except Exception as e:  # noqa
                trace.append(core.exn_name(e))
            continue
        try:
            apply_event(errh, ev)
            trace.append('ok')
        except Exception as e:  # noqa
            trace.append(core.exn_name(e))
    def safe(f):
        # an implementation that has left the modelled state space (e.g. None inside a children list)
        # must show up as a disagreement, not as a crash of the harness
        try:
            return f()
        except Exception as e:  # noqa
            return '?' + core.exn_name(e)
    out = ['T:' + ','.join(trace), 'N:' + safe(lambda: str(errh.get_error_count())),
           'D:' + safe(lambda: dump_state(errh))]
    fresh = copy.deepcopy(errh)          # the 999 visitor also runs on the handler as the events left it
    with Patched(clock):
        out.append('A:' + render(997, errh))
        out.append('E:' + safe(lambda: dump_state(errh)))
        out.append('B:' + render(999, fresh))
        out.append('F:' + safe(lambda: dump_state(fresh)))
        out.append('G:' + render(999, errh))
        out.append('H:' + safe(lambda: dump_state(errh)))
    return '\n'.join(out)
