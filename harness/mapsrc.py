"""Access to the implementation's loaded maps (cached per process)."""
import os

import core

_cache = {}


def map_names():
    mapdir = os.path.join(core.REPO, 'pyx12', 'map')
    return sorted(f for f in os.listdir(mapdir)
                  if f.endswith('.xml') and f not in ('maps.xml', 'dataele.xml', 'codes.xml', 'comp_test.xml')
                  and not f.startswith('x12.control'))


def all_map_files():
    mapdir = os.path.join(core.REPO, 'pyx12', 'map')
    return sorted(f for f in os.listdir(mapdir) if f.endswith('.xml') and f not in ('maps.xml', 'dataele.xml', 'codes.xml'))


def load(name):
    import pyx12.map_if
    import pyx12.params
    if name not in _cache:
        param = pyx12.params.params()
        _cache[name] = pyx12.map_if.load_map_file(name, param)
    return _cache[name]


def iter_nodes(node):
    """pre-order over loops/segments/elements/composites of a loaded map"""
    yield node
    if node.is_map_root() or node.is_loop():
        for k in sorted(node.pos_map):
            for ch in node.pos_map[k]:
                for x in iter_nodes(ch):
                    yield x
    elif node.is_segment() or node.is_composite():
        for ch in node.children:
            for x in iter_nodes(ch):
                yield x


def quick_subset(names):
    keep = ('837.5010.X222.A1', '834.5010.X220.A1', '999.5010', '270.4010.X092.A1', '835.4010.X091.A1', '278.4010.X094.27.A1')
    return [n for n in names if n.startswith(keep)]
