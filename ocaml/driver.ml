(* driver.ml — generic line driver around the extracted model.
   request : <unit> <hexarg> <hexarg> ...   ("-" = empty string)
   response: hex of the canonical result string computed by Model.dispatch *)

let ascii_of_char (c : char) : Model.ascii =
  let n = Char.code c in
  let b i = (n lsr i) land 1 = 1 in
  Model.Ascii (b 0, b 1, b 2, b 3, b 4, b 5, b 6, b 7)

let char_of_ascii (a : Model.ascii) : char =
  match a with
  | Model.Ascii (b0, b1, b2, b3, b4, b5, b6, b7) ->
    let v b i = if b then 1 lsl i else 0 in
    Char.chr (v b0 0 + v b1 1 + v b2 2 + v b3 3 + v b4 4 + v b5 5 + v b6 6 + v b7 7)

let str_of_string (s : string) : Model.ascii list =
  List.init (String.length s) (fun i -> ascii_of_char s.[i])

let string_of_str (l : Model.ascii list) : string =
  let b = Buffer.create 64 in
  List.iter (fun a -> Buffer.add_char b (char_of_ascii a)) l;
  Buffer.contents b

let unhex (s : string) : string =
  if s = "-" then "" else
  let n = String.length s / 2 in
  String.init n (fun i -> Char.chr (int_of_string ("0x" ^ String.sub s (2 * i) 2)))

let hex (s : string) : string =
  let b = Buffer.create (2 * String.length s) in
  String.iter (fun c -> Buffer.add_string b (Printf.sprintf "%02x" (Char.code c))) s;
  Buffer.contents b

(* the environment of XML trees sent by the harness: `loadxml <hexname> <hexserialisation>` *)
let env : Model.menv ref = ref []

let () =
  try
    while true do
      let line = input_line stdin in
      match String.split_on_char ' ' line with
      | [] | [""] -> print_endline ""
      | "loadxml" :: name :: ser :: _ ->
        (match Model.env_add !env (str_of_string (unhex name)) (str_of_string (unhex ser)) with
         | Some e -> env := e; print_endline (hex "ok")
         | None -> print_endline (hex "?parse"))
      | u :: args ->
        let args = List.filter (fun a -> a <> "") args in
        let res =
          try string_of_str (Model.dispatch_env !env (str_of_string u) (List.map (fun a -> str_of_string (unhex a)) args))
          with Stack_overflow -> "?stack" in
        print_endline (hex res)
    done
  with End_of_file -> ()
