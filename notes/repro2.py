import sys, re
sys.path.insert(0, '/tmp/ag_pipe')
import explore
ISA = 'ISA*00*          *00*          *ZZ*D00XXX         *ZZ*00AA           *070305*1832*U*00401*000701336*0*P*:'
GS = 'GS*BE*D00XXX*00AA*20070305*1832*13360001*X*004010X095A1'
BODY = ['ST*834*0001', 'BGN*00*88880070301  00*20070305*181245****4', 'N1*P5*PAYER 1*FI*999999999', 'N1*IN*KCMHSAS*FI*999999999',
        'INS*Y*18*030*XN*A*C**FT', 'REF*0F*00389999', 'NM1*IL*1*DOE*JOHN*A***34*999999999', 'SE*8*0001']
TAIL = ['GE*1*13360001', 'IEA*1*000701336']
def doc(segs): return ''.join(s + '~' for s in segs)
def show(name, segs, mask='AHX', what=()):
    text = segs if isinstance(segs, str) else doc(segs)
    r = explore.run(text, mask, 'E')
    print('=== %s  mask=%s' % (name, mask)); print('  text=%r' % text)
    print('  result:', r['res'], '| errors reported:', [(e[0], e[1], e[2][:60]) for e in r['errors']][:8])
    if 'ack' in what: print('  ack:', repr(r['ack']))
    if 'html' in what:
        h = r['html']; a = h.find('<div class="segs"')
        body = h[a:h.rfind('</div>')]
        body = re.sub(r'(&nbsp;){3,}', ' .. ', body)
        print('  html errors/segs:', re.findall(r'<span class="error">.*?</span>|<span class="seg">\d+:&nbsp;\w*', body))
    if 'xml' in what: print('  xml tail:', repr(r['xml'][-260:]))
    return r
if __name__ == '__main__':
    base = [ISA, GS] + BODY + TAIL
    show('valid base', base, 'AHX', ('ack', 'html'))
    # (a)
    show('a1 one element too many, XML requested', [ISA, GS] + BODY + ['GE*1*13360001', 'IEA*1*000701336*X'], '--X', ('xml',))
    show('a1 same without XML', [ISA, GS] + BODY + ['GE*1*13360001', 'IEA*1*000701336*X'], 'AH-')
    b = list(BODY); b[5] = 'REF*0F*00389999**A:B:C:D:E:F:G'
    show('a2 sub-elements too many, XML', [ISA, GS] + b + TAIL, '--X', ('xml',))
    show('a3 ISA16 = segment terminator', ISA[:103] + '~~~' , '---')
    show('a3b later ISA with too few elements', base + ['ISA*00*X', 'IEA*1*000701336'], 'AH-')
    # (c)
    show('c1 interchange without group', [ISA, 'IEA*0*000701336'], 'AH-', ('html', 'ack'))
    show('c2 set that is not of the group type', [ISA, GS, 'ST*997*0001', 'AK1*HS*1', 'AK9*A*1*1*1', 'SE*4*0001'] + TAIL, 'AH-', ('html', 'ack'))
    show('c3 segment between GS and ST', [ISA, GS, 'ZZZ*1'] + BODY + TAIL, 'AH-', ('html', 'ack'))
    show('c4 segment after IEA', base + ['ZZZ*1'], 'AH-', ('html',))
    # (d)
    b = list(BODY); b[-1] = 'SE*99*0001'
    show('d1 wrong SE01', [ISA, GS] + b + TAIL, 'AH-', ('html', 'ack'))
    show('d2 wrong GE01', [ISA, GS] + BODY + ['GE*5*13360001', 'IEA*1*000701336'], 'AH-', ('html', 'ack'))
    show('d3 wrong IEA01/IEA02', [ISA, GS] + BODY + ['GE*1*13360001', 'IEA*4*000701339'], 'AH-', ('html', 'ack'))
    # (b)
    I5 = ISA.replace('00401', '00501'); G5 = GS.replace('004010X095A1', '005010X220A1')
    show('b0 valid 5010 with ST03', [I5, G5, 'ST*834*0001*005010X220A1'] + BODY[1:] + TAIL, 'A--', ('ack',))
    show('b1 5010, ST without ST03', [I5, G5] + BODY + TAIL, 'A--', ('ack',))
    i2 = ISA.replace('D00XXX', 'AAAAAA').replace('00AA ', 'BBBB ').replace('000701336', '000701337')
    show('b2 two interchanges', base + [i2, GS.replace('13360001', '13360002')] + BODY + ['GE*1*13360002', 'IEA*1*000701337'], 'A--', ('ack',))
    show('b3 element error in GS', [ISA, GS.replace('20070305', '20071305')] + BODY + TAIL, 'A--', ('ack',))
    show('b4 truncated after BGN', [ISA, GS] + BODY[:2], 'A--', ('ack',))
    show('b5 two groups', [ISA, GS] + BODY + ['GE*1*13360001', GS.replace('13360001', '13360002')] + BODY + ['GE*1*13360002', 'IEA*2*000701336'], 'A--', ('ack',))
    # (e)
    b = list(BODY); b[6] = 'NM1*IL*1*DO\x01E*JOHN*A***34*999999999'
    r = show('e1 control character in data', [ISA, GS] + b + TAIL, '--X')
    import xml.etree.ElementTree as et
    try:
        et.fromstring(r['xml'].encode('utf-8')); print('  xml parses')
    except Exception as e:
        print('  xml does not parse:', e)
