import sys, io
sys.path.insert(0, '/repo')
import pyx12.x12n_document, pyx12.params
text = "ISA*00*          *00*          *ZZ*SENDER         *ZZ*RECEIVER       *030101*1253*U*00401*000000001*0*P*:SIEA*1*000000001S"
param = pyx12.params.params()
try:
    r = pyx12.x12n_document.x12n_document(param, io.StringIO(text), None, None, None)
    print("result", r)
except Exception as e:
    print("raised", type(e).__name__, e)
