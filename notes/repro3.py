import sys
sys.path.insert(0, '/tmp/ag_pipe')
from repro2 import *
dd = ISA[:-1] + '\x1f'
show('d4 ISA16 control character: error shown twice?', [dd, GS] + BODY + TAIL, '-H-', ('html',))
b = list(BODY); b[4] = 'INS*Y*18*030*XN*A*C**FT*********A:B:C'
show('a2 sub-elements: INS17?', [ISA, GS] + b + TAIL, '--X', ('xml',))
# 837 4010 CLM05 with too many components
from pyx12.test.x12testdata import datafiles
for k in ('837miss', 'simple_837p', '837_simple', 'simple_837i'):
    if k in datafiles: print(k)
