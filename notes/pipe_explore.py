"""Exploration of the intents (a)-(e) on the REAL implementation (not part of the harness)."""
import collections
import gc
import io
import logging
import random
import re
import sys
import xml.etree.ElementTree as et

import core
import pipe_gen
import pipe_impl
import walk_gen

import pyx12.error_handler
import pyx12.params
import pyx12.x12file
import pyx12.x12n_document
import pyx12.x12xml_simple
import pyx12.map_if

logging.disable(logging.CRITICAL)
REAL = pyx12.error_handler.err_handler
_cache = {}
real_load = pyx12.map_if.load_map_file


def load(map_file, prm, mp=None):
    key = (map_file, prm.get('charset'), prm.get('exclude_external_codes'), mp)
    if key not in _cache:
        _cache[key] = real_load(map_file, prm, mp)
    return _cache[key]


def run(text, mask='AHX', charset='B'):
    rec = {'errors': [], 'isa': 0, 'gs': 0, 'st': 0, 'xml_calls': [], 'gs_of_st': {}, 'isa_of_gs': {}}

    class H(REAL):
        def add_isa_loop(self, seg, src):
            rec['isa'] += 1
            rec['cur_gs'] = None
            rec['cur_st'] = None
            REAL.add_isa_loop(self, seg, src)

        def add_gs_loop(self, seg, src):
            rec['gs'] += 1
            rec['cur_gs'] = rec['gs']
            rec['cur_st'] = None
            REAL.add_gs_loop(self, seg, src)

        def add_st_loop(self, seg, src):
            rec['st'] += 1
            rec['cur_st'] = rec['st']
            rec['gs_of_st'][rec['st']] = rec.get('cur_gs')
            REAL.add_st_loop(self, seg, src)

        def close_st_loop(self, node, seg, src):
            REAL.close_st_loop(self, node, seg, src)
            rec['closed_st'] = rec.get('cur_st')

        def _e(self, lvl, code, msg):
            rec['errors'].append((lvl, code, msg, rec['isa'], rec.get('cur_gs'), rec.get('cur_st')))

        def isa_error(self, c, m):
            self._e('isa', c, m)
            REAL.isa_error(self, c, m)

        def gs_error(self, c, m):
            self._e('gs', c, m)
            REAL.gs_error(self, c, m)

        def st_error(self, c, m):
            self._e('st', c, m)
            REAL.st_error(self, c, m)

        def seg_error(self, c, m, v=None, ln=None):
            self._e('seg', c, m)
            REAL.seg_error(self, c, m, v, ln)

        def ele_error(self, c, m, v, refdes=None):
            self._e('ele', c, m)
            REAL.ele_error(self, c, m, v, refdes)

    real_seg = pyx12.x12xml_simple.x12xml_simple.seg

    def seg(self, seg_node, seg_data):
        rec['xml_calls'].append((seg_node.id, [x for x in seg_node.parent.get_path().split('/') if x]))
        return real_seg(self, seg_node, seg_data)

    param = pyx12.params.params()
    param.set('charset', charset)
    fa = io.StringIO() if mask[0] == 'A' else None
    fh = io.StringIO() if mask[1] == 'H' else None
    fx = io.StringIO() if mask[2] == 'X' else None
    pyx12.error_handler.err_handler = H
    pyx12.x12xml_simple.x12xml_simple.seg = seg
    pyx12.map_if.load_map_file = load
    try:
        try:
            ok = pyx12.x12n_document.x12n_document(param, io.StringIO(text), fa, fh, fx)
            res = ok
        except Exception as e:  # noqa
            res = '%s: %s' % (type(e).__name__, str(e)[:80])
    finally:
        pyx12.error_handler.err_handler = REAL
        pyx12.x12xml_simple.x12xml_simple.seg = real_seg
        pyx12.map_if.load_map_file = real_load
    gc.collect()
    rec['res'] = res
    rec['ack'] = fa.getvalue() if fa else ''
    rec['html'] = fh.getvalue() if fh else ''
    rec['xml'] = fx.getvalue() if fx else ''
    return rec


def source_segments(text):
    try:
        src = pyx12.x12file.X12Reader(io.StringIO(text))
    except Exception:  # noqa
        return None
    out = []
    try:
        for s in src:
            out.append(s.get_seg_id())
    except Exception:  # noqa
        return None
    return out


ALLOWED = re.compile(r'<span class="(seg|error|info|ele_err)">|</span>|<br />')
ENT = re.compile(r'&(amp|nbsp|gt|lt);')


def check_html(rec, text, out):
    html = rec['html']
    if not html:
        return
    if isinstance(rec['res'], str):
        return
    a = html.find('<div class="segs" style="">\n')
    b = html.rfind('</div>\n<p>')
    if a < 0 or b < 0:
        out.append(('d', 'html frame missing'))
        return
    body = html[a + len('<div class="segs" style="">\n'):b]
    segs = source_segments(text)
    n_seg = body.count('<span class="seg">')
    if segs is not None and n_seg != len(segs):
        out.append(('d', 'html lists %d segments, source has %d' % (n_seg, len(segs))))
    lines = [int(x) for x in re.findall(r'<span class="seg">(\d+):', body)]
    if lines != list(range(1, len(lines) + 1)) and lines:
        out.append(('d', 'html line numbers not 1..n: %r' % lines[:12]))
    n_err = body.count('<span class="error">')
    if n_err != len(rec['errors']):
        out.append(('d', 'html shows %d error lines, %d errors were reported (%s)' % (
            n_err, len(rec['errors']), collections.Counter((e[0], e[1]) for e in rec['errors']).most_common(4))))
    rest = ALLOWED.sub('', body)
    if '<' in rest or '>' in rest:
        k = min(x for x in (rest.find('<'), rest.find('>')) if x >= 0)
        out.append(('d', 'html unescaped markup: %r' % rest[max(0, k - 40):k + 40]))
    rest2 = ENT.sub('', rest)
    if '&' in rest2:
        k = rest2.find('&')
        out.append(('d', 'html bare ampersand: %r' % rest2[max(0, k - 40):k + 40]))


def check_xml(rec, out):
    xml = rec['xml']
    if not xml:
        return
    try:
        root = et.fromstring(xml.encode('utf-8'))
    except Exception as e:  # noqa
        ctl = any(ord(c) < 32 and c not in '\n\r\t' for c in xml)
        out.append(('e', 'xml not well-formed%s: %s' % (' (control character in data)' if ctl else '', str(e)[:60])))
        return
    # nesting
    found = []

    def walk(n, path):
        for c in n:
            if c.tag == 'loop':
                walk(c, path + [c.get('id')])
            elif c.tag == 'seg':
                found.append((c.get('id'), path))
            else:
                found.append(('?' + c.tag, path))
    walk(root, [])
    calls = rec['xml_calls']
    if isinstance(rec['res'], str):
        calls = calls[:len(found)]
    if len(found) != len(calls):
        out.append(('e', 'xml has %d seg elements, %d seg() calls' % (len(found), len(calls))))
        return
    for k, (f, c) in enumerate(zip(found, calls)):
        if f[0] != c[0] or f[1] != c[1]:
            out.append(('e', 'xml seg #%d %s nested under %r, map path is %r' % (k, c[0], f[1], c[1])))
            break


def check_verdict(rec, out):
    if isinstance(rec['res'], str):
        return
    if rec['res'] is True and rec['errors']:
        out.append(('c', 'verdict True although %d errors were reported: %r' % (len(rec['errors']), rec['errors'][:2])))
    if rec['res'] is False and not rec['errors']:
        out.append(('c', 'verdict False although no error was reported'))


def check_ack(rec, text, out):
    ack = rec['ack']
    if isinstance(rec['res'], str):
        return
    segs_in = source_segments(text) or []
    if not ack:
        if 'GS' in segs_in and rec['gs'] > 0:
            out.append(('b', 'no acknowledgement written (groups received: %d)' % rec['gs']))
        return
    segs = [s.strip('\r\n') for s in ack.split('~') if s.strip('\r\n')]
    ids = [s.split('*')[0] for s in segs]
    if ids[0] != 'ISA' or ids[-1] != 'IEA':
        out.append(('b', 'ack is not a complete interchange: first %s last %s (%d segments)' % (ids[0], ids[-1], len(ids))))
        return
    n_isa_in = rec['isa']
    if ids.count('ISA') != 1:
        out.append(('b', 'ack has %d ISA' % ids.count('ISA')))
    if n_isa_in > 1:
        out.append(('b', 'input has %d interchanges, ack has one envelope (taken from the last ISA/GS)' % n_isa_in))
    if ids.count('AK1') != rec['gs']:
        out.append(('b', 'ack names %d groups (AK1), %d were received' % (ids.count('AK1'), rec['gs'])))
    if ids.count('AK2') != rec['st']:
        out.append(('b', 'ack names %d sets (AK2), %d were received' % (ids.count('AK2'), rec['st'])))
    # per set acceptance
    st_err = collections.Counter(e[5] for e in rec['errors'] if e[5] is not None)
    k = 0
    codes = []
    for s in segs:
        p = s.split('*')
        if p[0] in ('AK5', 'IK5'):
            k += 1
            codes.append(p[1] if len(p) > 1 else '')
            acc = len(p) > 1 and p[1] == 'A'
            if acc != (st_err.get(k, 0) == 0):
                out.append(('b', 'set #%d: %s but %d errors reported in it' % (k, s, st_err.get(k, 0))))
                break
    # totals
    sts = [i for i, x in enumerate(ids) if x == 'ST']
    ses = [i for i, x in enumerate(ids) if x == 'SE']
    if len(sts) != len(ses):
        out.append(('b', 'ack ST/SE unbalanced %d/%d' % (len(sts), len(ses))))
    else:
        for a, b in zip(sts, ses):
            p = segs[b].split('*')
            if len(p) < 2 or p[1] != str(b - a + 1):
                out.append(('b', 'ack SE01 %s, counted %d' % (p[1:2], b - a + 1)))
                break
    ge = [s for s in segs if s.startswith('GE*')]
    if len(ge) == 1 and ge[0].split('*')[1] != str(len(sts)):
        out.append(('b', 'ack GE01 %s, %d sets in it' % (ge[0].split('*')[1], len(sts))))
    # AK9 totals per group
    gi = 0
    ak2 = acc = 0
    for s in segs:
        p = s.split('*')
        if p[0] == 'AK1':
            ak2 = acc = 0
            gi += 1
        elif p[0] == 'AK2':
            ak2 += 1
        elif p[0] in ('AK5', 'IK5') and len(p) > 1 and p[1] == 'A':
            acc += 1
        elif p[0] == 'AK9':
            g_err = [e for e in rec['errors'] if e[4] == gi]
            if len(p) > 4:
                if p[3] != str(ak2):
                    out.append(('b', 'AK903 (received) %s, %d sets named in the group' % (p[3], ak2)))
                if p[4] != str(acc):
                    out.append(('b', 'AK904 (accepted) %s, %d sets accepted by AK5' % (p[4], acc)))
            if (p[1] == 'A') != (not g_err):
                out.append(('b', 'group #%d: AK9 %s but %d errors reported in it %r' % (gi, p[1], len(g_err), g_err[:1])))


def main():
    seed = int(sys.argv[1]) if len(sys.argv) > 1 else 1
    n = int(sys.argv[2]) if len(sys.argv) > 2 else 300
    rng = random.Random(seed)
    cases = pipe_gen.gen_documents(rng, n, walk_gen.QUICK_MAPS)
    found = collections.defaultdict(list)
    exns = collections.defaultdict(list)
    for (kind, what, text) in cases:
        rec = run(text, 'AHX', 'E')
        out = []
        if isinstance(rec['res'], str):
            exns[rec['res'].split(':')[0] + ':' + re.sub(r'[0-9]+', 'N', rec['res'])[:60]].append(text)
        check_verdict(rec, out)
        check_html(rec, text, out)
        check_xml(rec, out)
        check_ack(rec, text, out)
        for (intent, msg) in out:
            key = intent + ': ' + re.sub(r"\d+", 'N', msg)[:70]
            found[key].append((len(text), msg, kind, what, text))
    for key in sorted(found):
        xs = sorted(found[key])
        print('[%s] x%d' % (key, len(xs)))
        ln, msg, kind, what, text = xs[0]
        print('    %s | %s %s' % (msg, kind, what))
        print('    text=%r' % text[:1200])
    print()
    for key in sorted(exns):
        xs = sorted(exns[key], key=len)
        print('[exception %s] x%d\n    text=%r' % (key, len(xs), xs[0][:800]))


if __name__ == '__main__':
    main()
