import sys
sys.path.insert(0, '/tmp/ag_pipe')
from repro2 import *
b = list(BODY); b[0] = 'ST*834*0001*X'
show('b6 4010 ST with a third element', [ISA, GS] + b + TAIL, 'A--', ('ack',))
