import sys
sys.path.insert(0, '/tmp/ag_pipe')
import explore
from pyx12.test.x12testdata import datafiles
t = datafiles['simple_837p']['source']
r = explore.run(t, '--X', 'E'); print('base:', r['res'], [(e[0], e[1], e[2][:50]) for e in r['errors']][:5])
import re
m = re.search(r'CLM\*[^~]*', t); print(m.group(0))
clm = m.group(0).split('*'); clm[5] = clm[5] + ':X:Y:Z'
t2 = t.replace(m.group(0), '*'.join(clm))
r = explore.run(t2, '--X', 'E'); print('CLM05 too many components:', r['res'], [(e[0], e[1], e[2][:70]) for e in r['errors']][:5]); print(repr(r['xml'][-300:]))
r = explore.run(t2, 'AH-', 'E'); print('same without XML:', r['res'])
print(repr('*'.join(clm)))
